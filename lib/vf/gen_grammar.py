"""Grammar and input generators for the grammar-driven properties."""
import random, itertools
from .grammar import Grammar, Rule, Term, simple
from . import ref_lr1

# ------------------------------------------------------------------ seed-independent core corpus
CORE_SPECS = [
    # witnesses of the defects found during design (must parse correctly on the repaired tree)
    ('closure-memo', 'S->p B c | p A d | q A d; B->C x; A->C x; C->g'),
    ('first-index', 'S->a X; Y->b; X->Z Y; Z->c'),
    ('first-index-conflict', 'S->Z X; X->b | b b; Z->z'),
    ('first-mutual-left', 'S->C B e | D A f; A->B x | a; B->A y | b; C->c; D->d'),
    # classic shapes
    ('lr1-not-lalr', 'S->a E c | a F d | b F c | b E d; E->e; F->e'),
    ('left-list', 'L->L a | a'),
    ('right-list', 'L->a L | a'),
    ('left-list-empty', 'L->L a | eps'),
    ('right-list-empty', 'L->a L | eps'),
    ('parens', 'S->( S ) | a'),
    ('parens-seq', 'S->S P | eps; P->( S )'),
    ('unit-chain', 'A->B; B->C; C->D; D->d | ( A )'),
    ('nullable-chain', 'S->A B C d; A->a | eps; B->b | eps; C->c | eps'),
    ('nullable-prefix-nest', 'S->eps | E F G ( S ); E->eps; F->eps; G->eps'),
    ('expr-unambig', 'E->E + T | T; T->T * F | F; F->( E ) | i'),
    ('mutual', 'A->a B | c; B->b A | d'),
    ('mutual-left', 'A->B a | a; B->A b'),
    ('unused-symbols', 'S->a S b | c; U->u U | u'),
    ('long-rule-nt-end', 'S->a b c d X; X->x | y X'),
    ('palin-marked', 'S->a S a | b S b | m'),
    ('shared-items', 'S->x A y | z A w | x B w; A->C; B->C q; C->c | c C'),
    ('eps-both-ends', 'S->A s A; A->eps | a'),
    ('deep-unit-null', 'S->A; A->B; B->C | b; C->eps'),
    # not LR(1): conflicts must be reported
    ('ambig-expr', 'E->E + E | E * E | i'),
    ('dangling-else', 'S->i S | i S e S | x'),
    ('rr-basic', 'S->A | B; A->a; B->a'),
    ('rr-lookahead', 'S->A x | B x; A->a; B->a'),
    ('cycle-root', 'S->T | b; T->S'),
    ('missed-sr', 'S->T | S S d; T->eps'),
    ('palin-unmarked', 'S->a S a | a'),
]

def core_grammars():
    out = []
    for name, spec in CORE_SPECS:
        g = simple(spec); g.note = 'core:' + name
        out.append(g)
    return out

# ------------------------------------------------------------------ random grammars
TERM_CHARS = 'abcdefghij'

def random_grammar(rnd, nn=None, nt=None, maxlen=None):
    nn = nn or rnd.randint(1, 5); nt = nt or rnd.randint(2, 5)
    nts = ['N%d' % i for i in range(nn)]
    terms = [Term('c', TERM_CHARS[i]) for i in range(nt)]
    nr = rnd.randint(nn, min(13, nn * 3 + 2))
    maxlen = maxlen or rnd.choice([1, 2, 2, 3, 3, 4, 5])
    rules = []
    for k in range(nr):
        l = k if k < nn else rnd.randrange(nn)
        n = min(rnd.choice([0, 1, 1, 2, 2, 2, 3, 3, 4, 5]), maxlen)
        rhs = []
        for _ in range(n):
            rhs.append(('n', rnd.randrange(nn)) if rnd.random() < 0.45 else ('t', rnd.randrange(nt)))
        rules.append(Rule(l, rhs))
    rnd.shuffle(rules)
    return Grammar(nts, terms, rules, 0, note='random')

def clone(g):
    return Grammar.from_json(g.to_json())

def mutate(g, rnd):
    """one random structural mutation of g (keeps names valid)"""
    g = clone(g); nn = len(g.nts); nt = len(g.terms)
    op = rnd.choice(['addrule', 'addrule', 'nullable', 'dupnt', 'insertsym', 'addterm', 'wrap', 'unit', 'droprule', 'swap'])
    def rsym():
        return ('n', rnd.randrange(len(g.nts))) if rnd.random() < 0.4 else ('t', rnd.randrange(len(g.terms)))
    if op == 'addrule':
        n = rnd.choice([0, 1, 2, 2, 3, 4])
        g.rules.insert(rnd.randrange(len(g.rules) + 1), Rule(rnd.randrange(nn), [rsym() for _ in range(n)]))
    elif op == 'nullable':
        g.rules.insert(rnd.randrange(len(g.rules) + 1), Rule(rnd.randrange(nn), []))
    elif op == 'dupnt' and nn < 7:
        # new nonterminal with copies of the rules of an existing one; some uses redirected
        src = rnd.randrange(nn); g.nts.append('N%d' % (len(g.nts) + 10)); g.vtypes.append('V'); new = len(g.nts) - 1
        for r in [r for r in g.rules if r.lhs == src]:
            g.rules.append(Rule(new, [(('n', new) if s == ('n', src) and rnd.random() < 0.5 else s) for s in r.rhs]))
        for i, r in enumerate(g.rules):
            if r.lhs != new and rnd.random() < 0.4:
                g.rules[i] = Rule(r.lhs, [(('n', new) if s == ('n', src) and rnd.random() < 0.6 else s) for s in r.rhs], r.prec, r.ftor)
    elif op == 'insertsym':
        i = rnd.randrange(len(g.rules)); r = g.rules[i]
        if len(r.rhs) < 6:
            rhs = list(r.rhs); rhs.insert(rnd.randrange(len(rhs) + 1), rsym()); g.rules[i] = Rule(r.lhs, rhs, r.prec, r.ftor)
    elif op == 'addterm' and nt < 8:
        c = next(ch for ch in 'klmnopqrstuvw' + TERM_CHARS if ch not in [t.text for t in g.terms])
        g.terms.append(Term('c', c)); i = rnd.randrange(len(g.rules)); r = g.rules[i]
        rhs = list(r.rhs); rhs.insert(rnd.randrange(len(rhs) + 1), ('t', len(g.terms) - 1)); g.rules[i] = Rule(r.lhs, rhs, r.prec, r.ftor)
    elif op == 'wrap' and nn < 7:
        # new root-like wrapper: X -> t old t' | ...
        g.nts.append('N%d' % (len(g.nts) + 10)); g.vtypes.append('V'); new = len(g.nts) - 1
        g.rules.append(Rule(new, [rsym(), ('n', rnd.randrange(nn)), rsym()]))
        g.rules.append(Rule(rnd.randrange(nn), [('n', new)]))
    elif op == 'unit':
        a, b = rnd.randrange(nn), rnd.randrange(nn)
        if a != b: g.rules.append(Rule(a, [('n', b)]))
    elif op == 'droprule' and len(g.rules) > 2:
        del g.rules[rnd.randrange(len(g.rules))]
    elif op == 'swap' and len(g.rules) > 1:
        i, j = rnd.randrange(len(g.rules)), rnd.randrange(len(g.rules)); g.rules[i], g.rules[j] = g.rules[j], g.rules[i]
    # every nonterminal needs at least one rule, or ctpg's rule slices are undefined for it
    have = {r.lhs for r in g.rules}
    for i in range(len(g.nts)):
        if i not in have: g.rules.append(Rule(i, [('t', rnd.randrange(len(g.terms)))]))
    g.note = 'mutant'
    return g

def productive(g):
    """min sentence length per nonterminal (None if unproductive)"""
    INF = 10 ** 9
    m = [INF] * len(g.nts); changed = True
    while changed:
        changed = False
        for r in g.rules:
            tot = 0
            for s in r.rhs:
                tot += m[s[1]] if s[0] == 'n' else 1
                if tot >= INF: break
            if tot < m[r.lhs]: m[r.lhs] = tot; changed = True
    return m

def usable(g):
    """generator-side sanity: root productive, every nonterminal has a rule, no error token unless wanted"""
    m = productive(g)
    return m[g.root] < 10 ** 9 and all(any(r.lhs == i for r in g.rules) for i in range(len(g.nts)))

def classify(tb):
    if tb.has_rr: return 'rr'
    if tb.has_acc: return 'acc'
    if tb.has_sr: return 'sr'
    return 'lr1'

def grammar_stream(rnd, want_lr1=0.7, max_states=160):
    """endless stream of (grammar, table); biased to LR(1) grammars built by mutating LR(1) seeds"""
    pool = [g for g in core_grammars()]
    pool_lr1 = []
    for g in pool:
        tb = ref_lr1.build(g)
        if tb.lr1: pool_lr1.append(g)
    while True:
        x = rnd.random()
        if x < 0.30:
            g = random_grammar(rnd)
        elif x < 0.9:
            g = rnd.choice(pool_lr1)
            for _ in range(rnd.choice([1, 1, 2, 3])): g = mutate(g, rnd)
        else:
            a, b = clone(rnd.choice(pool_lr1)), rnd.choice(pool_lr1)
            g = splice(a, b, rnd)
        if not usable(g): continue
        if len(g.rules) > 16 or len(g.nts) > 7 or len(g.terms) > 8: continue
        tb = ref_lr1.build(g)
        if len(tb.states) > max_states: continue
        if tb.lr1:
            if len(pool_lr1) < 400: pool_lr1.append(g)
            else: pool_lr1[rnd.randrange(len(pool_lr1))] = g
            yield g, tb
        elif rnd.random() > want_lr1:
            yield g, tb

def splice(a, b, rnd):
    """graft grammar b under a fresh nonterminal of a"""
    off = len(a.nts)
    tmap = {}
    for j, t in enumerate(b.terms):
        for k, u in enumerate(a.terms):
            if u.text == t.text: tmap[j] = k; break
        else:
            a.terms.append(Term('c', t.text)); tmap[j] = len(a.terms) - 1
    for n in b.nts: a.nts.append('M%d' % (len(a.nts))); a.vtypes.append('V')
    def ms(s): return ('n', s[1] + off) if s[0] == 'n' else ('t', tmap[s[1]]) if s[0] == 't' else s
    for r in b.rules: a.rules.append(Rule(r.lhs + off, [ms(s) for s in r.rhs]))
    i = rnd.randrange(len(a.rules)); r = a.rules[i]
    if len(r.rhs) < 5 and r.lhs < off:
        rhs = list(r.rhs); rhs.insert(rnd.randrange(len(rhs) + 1), ('n', off + b.root)); a.rules[i] = Rule(r.lhs, rhs)
    else:
        a.rules.append(Rule(rnd.randrange(off), [('n', off + b.root)]))
    a.note = 'splice'
    return a

# ------------------------------------------------------------------ inputs (token sequences as lists of term indices)

def random_sentence(g, rnd, target=12, minlen=None, hard_cap=4000):
    """random derivation from the root; returns list of term indices or None"""
    m = minlen or productive(g)
    INF = 10 ** 9
    if m[g.root] >= INF: return None
    byl = {}
    for r in g.rules: byl.setdefault(r.lhs, []).append(r)
    out = []
    # explicit stack, budget-driven: while budget remains choose freely, then choose minimal rules
    stack = [('n', g.root)]
    budget = target
    steps = 0
    while stack:
        steps += 1
        if steps > 200000 or len(out) > hard_cap: return None
        s = stack.pop()
        if s[0] != 'n':
            out.append(g.symterm(s)); continue
        cands = [r for r in byl[s[1]] if all(x[0] != 'n' or m[x[1]] < INF for x in r.rhs) and all(x[0] != 'e' for x in r.rhs)]
        if not cands: return None
        def cost(r): return sum(m[x[1]] if x[0] == 'n' else 1 for x in r.rhs)
        if budget <= 0 or len(stack) > 3 * target + 50:
            mc = min(cost(r) for r in cands)
            r = rnd.choice([r for r in cands if cost(r) == mc])
        else:
            r = rnd.choice(cands)
        budget -= 1
        for x in reversed(r.rhs): stack.append(x)
    return out

def all_strings(nterms, maxlen, cap, rnd):
    out = []
    for L in range(maxlen + 1):
        n = nterms ** L
        if n <= cap:
            out.extend(list(p) for p in itertools.product(range(nterms), repeat=L))
        else:
            seen = set()
            for _ in range(cap):
                p = tuple(rnd.randrange(nterms) for _ in range(L))
                if p not in seen: seen.add(p); out.append(list(p))
    return out

def mutate_tokens(toks, nterms, rnd):
    t = list(toks); op = rnd.choice(['del', 'ins', 'rep', 'swap', 'trunc', 'dup'])
    if op == 'del' and t: del t[rnd.randrange(len(t))]
    elif op == 'ins': t.insert(rnd.randrange(len(t) + 1), rnd.randrange(nterms))
    elif op == 'rep' and t: t[rnd.randrange(len(t))] = rnd.randrange(nterms)
    elif op == 'swap' and len(t) > 1:
        i = rnd.randrange(len(t) - 1); t[i], t[i + 1] = t[i + 1], t[i]
    elif op == 'trunc' and t: t = t[:rnd.randrange(len(t))]
    elif op == 'dup' and t:
        i = rnd.randrange(len(t)); t.insert(i, t[i])
    return t

def inputs_for(g, rnd, n_exh_cap=400, exh_len=5, n_rand=40, n_mut=80, long_targets=(30, 120)):
    """token-index sequences: bounded-exhaustive short strings, random derivations, near misses"""
    nt = len(g.terms)
    seqs = all_strings(nt, exh_len, max(1, n_exh_cap // (exh_len + 1) * 2), rnd)
    if len(seqs) > n_exh_cap:
        head = [s for s in seqs if len(s) <= 3]
        tail = [s for s in seqs if len(s) > 3]; rnd.shuffle(tail)
        seqs = head + tail[:max(0, n_exh_cap - len(head))]
    m = productive(g)
    pos = []
    for i in range(n_rand):
        s = random_sentence(g, rnd, target=rnd.choice([3, 6, 10, 20] + list(long_targets)), minlen=m)
        if s is not None: pos.append(s)
    muts = []
    for i in range(n_mut):
        if not pos: break
        muts.append(mutate_tokens(rnd.choice(pos), nt, rnd))
    seen = set(); out = []
    for s in seqs + pos + muts:
        k = tuple(s)
        if k not in seen: seen.add(k); out.append(s)
    return out
