"""Grammar and input generators for the grammar-driven properties."""
import random, itertools
from .grammar import Grammar, Rule, Term, simple
from . import ref_lr1

# ------------------------------------------------------------------ seed-independent core corpus
CORE_SPECS = [
    # witnesses of the defects found during design (must parse correctly on the repaired tree)
    ('closure-memo', 'S->p B c | p A d | q A d; B->C x; A->C x; C->g'),
    ('first-index', 'S->a X; Y->b; X->Z Y; Z->c'),
    ('first-index-conflict', 'S->Z X; X->b | b b; Z->z'),
    ('first-mutual-left', 'S->C B e | D A f; A->B x | a; B->A y | b; C->c; D->d'),
    # classic shapes
    ('lr1-not-lalr', 'S->a E c | a F d | b F c | b E d; E->e; F->e'),
    ('left-list', 'L->L a | a'),
    ('right-list', 'L->a L | a'),
    ('left-list-empty', 'L->L a | eps'),
    ('right-list-empty', 'L->a L | eps'),
    ('parens', 'S->( S ) | a'),
    ('parens-seq', 'S->S P | eps; P->( S )'),
    ('unit-chain', 'A->B; B->C; C->D; D->d | ( A )'),
    ('nullable-chain', 'S->A B C d; A->a | eps; B->b | eps; C->c | eps'),
    ('nullable-prefix-nest', 'S->eps | E F G ( S ); E->eps; F->eps; G->eps'),
    ('expr-unambig', 'E->E + T | T; T->T * F | F; F->( E ) | i'),
    ('mutual', 'A->a B | c; B->b A | d'),
    ('mutual-left', 'A->B a | a; B->A b'),
    ('unused-symbols', 'S->a S b | c; U->u U | u'),
    ('long-rule-nt-end', 'S->a b c d X; X->x | y X'),
    ('palin-marked', 'S->a S a | b S b | m'),
    ('shared-items', 'S->x A y | z A w | x B w; A->C; B->C q; C->c | c C'),
    ('eps-both-ends', 'S->A s A; A->eps | a'),
    ('deep-unit-null', 'S->A; A->B; B->C | b; C->eps'),
    # FIRST / nullable interplay
    ('nullable-leftrec-after-nt', 'S->H L e; H->h; L->L i | eps'),
    ('nullable-leftrec-via-tail', 'S->H T; T->L e; H->h; L->L i | eps'),
    ('nullable-rightrec-after-nt', 'S->H L e; H->h; L->i L | eps'),
    ('nullable-leftrec-nested', 'S->H L e; H->h | H g; L->L M | eps; M->i | ( L )'),
    ('first-through-nullable-prefix', 'S->A S x | y; A->B C; B->b | eps; C->c | eps'),
    ('nullable-leftrec-two-levels', 'S->P Q z; P->P p | eps; Q->Q P q | eps'),
    ('leftrec-nullable-middle', 'S->a L L b; L->L c | eps'),
    ('nullable-mutual-recursion', 'S->A e; A->B x | eps; B->A C; C->eps'),
    # not LR(1): conflicts must be reported
    ('nullable-memo-order', 'N0->a N2 | c N4 | N4 N1; N1->a c; N2->c N3 | N4 N4 | b a; N3->N3 N3 | a; N4->N0 N2 | a N1 | N2 b | eps'),
    ('ambig-expr', 'E->E + E | E * E | i'),
    ('dangling-else', 'S->i S | i S e S | x'),
    ('rr-basic', 'S->A | B; A->a; B->a'),
    ('rr-lookahead', 'S->A x | B x; A->a; B->a'),
    ('cycle-root', 'S->T | b; T->S'),
    ('missed-sr', 'S->T | S S d; T->eps'),
    ('palin-unmarked', 'S->a S a | a'),
]

# no '.' here: write_diag_str marks the position inside an item with ". ", which cannot be told from a term named "." when the text is read back
WIDE_CHARS = [c for c in 'abcdefghijklmnopqrstuvwxyzABCDEFGHIJKLMNOPQRSTUVWXYZ0123456789!#$%&*+,-/:;<=>?@^_`|~[]{}']

def wide_grammars(heavy=False):
    """grammars with more than 64 terms / nonterminals: the bit sets over terms and nonterminals span several machine words"""
    out = []
    # (1) 80 terms: S -> L ; L -> eps | L I ; I -> t_k t_(k+1) | '(' L ')' for many k, with lookahead-dependent reductions
    terms = [Term('c', c) for c in WIDE_CHARS[:78]] + [Term('c', '('), Term('c', ')')]
    lp, rp = 78, 79
    rules = [Rule(0, [('n', 1)]), Rule(1, []), Rule(1, [('n', 1), ('n', 2)]), Rule(2, [('t', lp), ('n', 1), ('t', rp)])]
    for k in range(0, 78, 2): rules.append(Rule(2, [('t', k), ('n', 3), ('t', k + 1)]))
    rules += [Rule(3, []), Rule(3, [('t', 70), ('n', 3)]), Rule(3, [('t', 5)])]
    g = Grammar(['Start', 'List', 'Item', 'Opt'], terms, rules, 0, note='core:wide-terms'); out.append(g)
    # (2) 70 nonterminals in a unit chain with nullable branches: A0 -> A1 x | A1 ; ... ; A69 -> y | eps-ish
    n = 70
    nts = ['Nt%d' % i for i in range(n)]
    terms = [Term('c', 'x'), Term('c', 'y'), Term('c', 'z')]
    rules = []
    for i in range(n - 1):
        rules.append(Rule(i, [('n', i + 1)]))
        if i % 7 == 3: rules.append(Rule(i, [('t', 2), ('n', i + 1), ('t', 0)]))
    rules.append(Rule(n - 1, [('t', 1)])); rules.append(Rule(n - 1, []))
    g = Grammar(nts, terms, rules, 0, note='core:wide-nonterminals'); out.append(g)
    # (3) the LR(1)-not-LALR shape replicated over many terms (many distinct lookahead sets beyond bit 64)
    terms = [Term('c', c) for c in WIDE_CHARS[:72]]
    rules = []
    nts = ['Start', 'Ee', 'Ff']
    for k in range(0, 68, 4):
        a, b, c, d = k, k + 1, k + 2, k + 3
        rules += [Rule(0, [('t', a), ('n', 1), ('t', c)]), Rule(0, [('t', a), ('n', 2), ('t', d)]), Rule(0, [('t', b), ('n', 2), ('t', c)]), Rule(0, [('t', b), ('n', 1), ('t', d)])]
    rules += [Rule(1, [('t', 70)]), Rule(2, [('t', 70)])]
    g = Grammar(nts, terms, rules, 0, note='core:wide-lr1-not-lalr'); out.append(g)
    # (4) long rules (up to 12 symbols) with nullable symbols inside, next to very short ones
    g = simple('S->a B c D e F g H i J k L | m S n\nB->b | eps\nD->d D | eps\nF->f\nH->h | eps\nJ->j J | eps\nL->l'); g.note = 'core:long-rules'; out.append(g)
    g = simple('S->A B C D E F G H z | y\nA->a | eps\nB->b | eps\nC->c | eps\nD->d | eps\nE->e | eps\nF->f | eps\nG->g | eps\nH->h | eps'); g.note = 'core:long-rule-of-nullables'; out.append(g)
    # (5) many rules: 60 alternatives of one nonterminal plus two list nonterminals
    alts = []
    for i, c in enumerate('abcdefghijklmnopqrst'):
        alts.append('%s A %s' % (c, 'uvw'[i % 3])); alts.append('%s %s B !' % (c, c)); alts.append('%s #' % c)
    g = simple('S->' + ' | '.join(alts) + '\nA->S ; | ;\nB->B , S | S'); g.note = 'core:many-rules'
    if heavy: out.append(g)      # 616 states: minutes of compile time, thorough tier only
    # (6) item address space (rules + 1) * (longest rule + 1) * (terms + 2) beyond 65535: one rule of 127 symbols over 62 terms; the items of
    #     the augmented rule have the largest indices. Built at run time with user limits (the default caps would make an 80 MB object).
    terms = [Term('c', c) for c in WIDE_CHARS[:62]]
    rules = [Rule(0, [('t', k % 61) for k in range(127)]), Rule(0, [('t', 61), ('n', 1)]), Rule(1, [('t', 3), ('n', 1)]), Rule(1, [('n', 2), ('t', 5)]), Rule(2, []),
             Rule(2, [('t', 7), ('n', 3)]), Rule(3, [('t', 9)]), Rule(3, [('t', 11), ('n', 0), ('t', 13)])]
    g = Grammar(['Start', 'Xx', 'Yy', 'Zz'], terms, rules, 0, note='core:item-address-space-beyond-16-bits')
    tb = ref_lr1.build(g)
    g.limits = (len(tb.states) + 3, max(len(st) for st in tb.states) + 3); g.rt = True
    out.append(g)
    return out

def core_grammars(wide=False, heavy=False):
    out = []
    for name, spec in CORE_SPECS:
        g = simple(spec); g.note = 'core:' + name
        out.append(g)
    if wide: out += wide_grammars(heavy)
    return out

# ------------------------------------------------------------------ random grammars
TERM_CHARS = 'abcdefghij'

def random_grammar(rnd, nn=None, nt=None, maxlen=None):
    nn = nn or rnd.randint(1, 5); nt = nt or rnd.randint(2, 5)
    nts = ['N%d' % i for i in range(nn)]
    terms = [Term('c', TERM_CHARS[i]) for i in range(nt)]
    nr = rnd.randint(nn, min(13, nn * 3 + 2))
    maxlen = maxlen or rnd.choice([1, 2, 2, 3, 3, 4, 5])
    rules = []
    for k in range(nr):
        l = k if k < nn else rnd.randrange(nn)
        n = min(rnd.choice([0, 1, 1, 2, 2, 2, 3, 3, 4, 5]), maxlen)
        rhs = []
        for _ in range(n):
            rhs.append(('n', rnd.randrange(nn)) if rnd.random() < 0.45 else ('t', rnd.randrange(nt)))
        rules.append(Rule(l, rhs))
    rnd.shuffle(rules)
    return Grammar(nts, terms, rules, 0, note='random')

def clone(g):
    return Grammar.from_json(g.to_json())

def mutate(g, rnd):
    """one random structural mutation of g (keeps names valid)"""
    g = clone(g); nn = len(g.nts); nt = len(g.terms)
    op = rnd.choice(['addrule', 'addrule', 'nullable', 'dupnt', 'insertsym', 'addterm', 'wrap', 'unit', 'droprule', 'swap', 'listify', 'ntafter'])
    def rsym():
        return ('n', rnd.randrange(len(g.nts))) if rnd.random() < 0.4 else ('t', rnd.randrange(len(g.terms)))
    if op == 'addrule':
        n = rnd.choice([0, 1, 2, 2, 3, 4])
        g.rules.insert(rnd.randrange(len(g.rules) + 1), Rule(rnd.randrange(nn), [rsym() for _ in range(n)]))
    elif op == 'nullable':
        g.rules.insert(rnd.randrange(len(g.rules) + 1), Rule(rnd.randrange(nn), []))
    elif op == 'dupnt' and nn < 7:
        # new nonterminal with copies of the rules of an existing one; some uses redirected
        src = rnd.randrange(nn); g.nts.append('N%d' % (len(g.nts) + 10)); g.vtypes.append('V'); new = len(g.nts) - 1
        for r in [r for r in g.rules if r.lhs == src]:
            g.rules.append(Rule(new, [(('n', new) if s == ('n', src) and rnd.random() < 0.5 else s) for s in r.rhs]))
        for i, r in enumerate(g.rules):
            if r.lhs != new and rnd.random() < 0.4:
                g.rules[i] = Rule(r.lhs, [(('n', new) if s == ('n', src) and rnd.random() < 0.6 else s) for s in r.rhs], r.prec, r.ftor)
    elif op == 'insertsym':
        i = rnd.randrange(len(g.rules)); r = g.rules[i]
        if len(r.rhs) < 6:
            rhs = list(r.rhs); rhs.insert(rnd.randrange(len(rhs) + 1), rsym()); g.rules[i] = Rule(r.lhs, rhs, r.prec, r.ftor)
    elif op == 'addterm' and nt < 8:
        c = next(ch for ch in 'klmnopqrstuvw' + TERM_CHARS if ch not in [t.text for t in g.terms])
        g.terms.append(Term('c', c)); i = rnd.randrange(len(g.rules)); r = g.rules[i]
        rhs = list(r.rhs); rhs.insert(rnd.randrange(len(rhs) + 1), ('t', len(g.terms) - 1)); g.rules[i] = Rule(r.lhs, rhs, r.prec, r.ftor)
    elif op == 'wrap' and nn < 7:
        # new root-like wrapper: X -> t old t' | ...
        g.nts.append('N%d' % (len(g.nts) + 10)); g.vtypes.append('V'); new = len(g.nts) - 1
        g.rules.append(Rule(new, [rsym(), ('n', rnd.randrange(nn)), rsym()]))
        g.rules.append(Rule(rnd.randrange(nn), [('n', new)]))
    elif op == 'listify':
        # make a nonterminal a nullable (left- or right-) recursive list
        a = rnd.randrange(nn); x = rsym() if rnd.random() < 0.3 else ('t', rnd.randrange(nt))
        g.rules.append(Rule(a, [('n', a), x] if rnd.random() < 0.6 else [x, ('n', a)]))
        if rnd.random() < 0.8: g.rules.append(Rule(a, []))
    elif op == 'ntafter':
        # put a nonterminal directly after another nonterminal somewhere
        i = rnd.randrange(len(g.rules)); r = g.rules[i]
        ks = [k for k, sy in enumerate(r.rhs) if sy[0] == 'n']
        if ks and len(r.rhs) < 6:
            k = rnd.choice(ks); rhs = list(r.rhs); rhs.insert(k + 1, ('n', rnd.randrange(nn))); g.rules[i] = Rule(r.lhs, rhs, r.prec, r.ftor)
    elif op == 'unit':
        a, b = rnd.randrange(nn), rnd.randrange(nn)
        if a != b: g.rules.append(Rule(a, [('n', b)]))
    elif op == 'droprule' and len(g.rules) > 2:
        del g.rules[rnd.randrange(len(g.rules))]
    elif op == 'swap' and len(g.rules) > 1:
        i, j = rnd.randrange(len(g.rules)), rnd.randrange(len(g.rules)); g.rules[i], g.rules[j] = g.rules[j], g.rules[i]
    # every nonterminal needs at least one rule, or ctpg's rule slices are undefined for it
    have = {r.lhs for r in g.rules}
    for i in range(len(g.nts)):
        if i not in have: g.rules.append(Rule(i, [('t', rnd.randrange(len(g.terms)))]))
    g.note = 'mutant'
    return g

def productive(g):
    """min sentence length per nonterminal (None if unproductive)"""
    INF = 10 ** 9
    m = [INF] * len(g.nts); changed = True
    while changed:
        changed = False
        for r in g.rules:
            tot = 0
            for s in r.rhs:
                tot += m[s[1]] if s[0] == 'n' else 1
                if tot >= INF: break
            if tot < m[r.lhs]: m[r.lhs] = tot; changed = True
    return m

def usable(g):
    """generator-side sanity: root productive, every nonterminal has a rule (rule-less nonterminals are added separately by shuffle_symbols)"""
    m = productive(g)
    return m[g.root] < 10 ** 9 and all(any(r.lhs == i for r in g.rules) for i in range(len(g.nts)))

def classify(tb):
    if tb.has_rr: return 'rr'
    if tb.has_acc: return 'acc'
    if tb.has_sr: return 'sr'
    return 'lr1'

def grammar_stream(rnd, want_lr1=0.7, max_states=160):
    """endless stream of (grammar, table); biased to LR(1) grammars built by mutating LR(1) seeds"""
    pool = [g for g in core_grammars()]
    pool_lr1 = []
    for g in pool:
        tb = ref_lr1.build(g)
        if tb.lr1: pool_lr1.append(g)
    while True:
        x = rnd.random()
        if x < 0.30:
            g = random_grammar(rnd)
        elif x < 0.9:
            g = rnd.choice(pool_lr1)
            for _ in range(rnd.choice([1, 1, 2, 3])): g = mutate(g, rnd)
        else:
            a, b = clone(rnd.choice(pool_lr1)), rnd.choice(pool_lr1)
            g = splice(a, b, rnd)
        if not usable(g): continue
        if len(g.rules) > 16 or len(g.nts) > 7 or len(g.terms) > 8: continue
        tb = ref_lr1.build(g)
        if len(tb.states) > max_states: continue
        if ref_lr1.beyond_default_cap(g, tb): continue     # rejected with default limits (finding D16): C12's own witnesses cover it
        if tb.lr1:
            if len(pool_lr1) < 400: pool_lr1.append(g)
            else: pool_lr1[rnd.randrange(len(pool_lr1))] = g
            yield g, tb
        elif rnd.random() > want_lr1:
            yield g, tb

def splice(a, b, rnd):
    """graft grammar b under a fresh nonterminal of a"""
    off = len(a.nts)
    tmap = {}
    for j, t in enumerate(b.terms):
        for k, u in enumerate(a.terms):
            if u.text == t.text: tmap[j] = k; break
        else:
            a.terms.append(Term('c', t.text)); tmap[j] = len(a.terms) - 1
    for n in b.nts: a.nts.append('M%d' % (len(a.nts))); a.vtypes.append('V')
    def ms(s): return ('n', s[1] + off) if s[0] == 'n' else ('t', tmap[s[1]]) if s[0] == 't' else s
    for r in b.rules: a.rules.append(Rule(r.lhs + off, [ms(s) for s in r.rhs]))
    i = rnd.randrange(len(a.rules)); r = a.rules[i]
    if len(r.rhs) < 5 and r.lhs < off:
        rhs = list(r.rhs); rhs.insert(rnd.randrange(len(rhs) + 1), ('n', off + b.root)); a.rules[i] = Rule(r.lhs, rhs)
    else:
        a.rules.append(Rule(rnd.randrange(off), [('n', off + b.root)]))
    a.note = 'splice'
    return a

# ------------------------------------------------------------------ inputs (token sequences as lists of term indices)

def random_sentence(g, rnd, target=12, minlen=None, hard_cap=4000):
    """random derivation from the root; returns list of term indices or None"""
    m = minlen or productive(g)
    INF = 10 ** 9
    if m[g.root] >= INF: return None
    byl = {}
    for r in g.rules: byl.setdefault(r.lhs, []).append(r)
    out = []
    # explicit stack, budget-driven: while budget remains choose freely, then choose minimal rules
    stack = [('n', g.root)]
    budget = target
    steps = 0
    while stack:
        steps += 1
        if steps > 200000 or len(out) > hard_cap: return None
        s = stack.pop()
        if s[0] != 'n':
            out.append(g.symterm(s)); continue
        cands = [r for r in byl[s[1]] if all(x[0] != 'n' or m[x[1]] < INF for x in r.rhs) and all(x[0] != 'e' for x in r.rhs)]
        if not cands: return None
        def cost(r): return sum(m[x[1]] if x[0] == 'n' else 1 for x in r.rhs)
        if budget <= 0 or len(stack) > 3 * target + 50:
            mc = min(cost(r) for r in cands)
            r = rnd.choice([r for r in cands if cost(r) == mc])
        else:
            r = rnd.choice(cands)
        budget -= 1
        for x in reversed(r.rhs): stack.append(x)
    return out

def all_strings(nterms, maxlen, cap, rnd):
    out = []
    for L in range(maxlen + 1):
        n = nterms ** L
        if n <= cap:
            out.extend(list(p) for p in itertools.product(range(nterms), repeat=L))
        else:
            seen = set()
            for _ in range(cap):
                p = tuple(rnd.randrange(nterms) for _ in range(L))
                if p not in seen: seen.add(p); out.append(list(p))
    return out

def mutate_tokens(toks, nterms, rnd):
    t = list(toks); op = rnd.choice(['del', 'ins', 'rep', 'swap', 'trunc', 'dup'])
    if op == 'del' and t: del t[rnd.randrange(len(t))]
    elif op == 'ins': t.insert(rnd.randrange(len(t) + 1), rnd.randrange(nterms))
    elif op == 'rep' and t: t[rnd.randrange(len(t))] = rnd.randrange(nterms)
    elif op == 'swap' and len(t) > 1:
        i = rnd.randrange(len(t) - 1); t[i], t[i + 1] = t[i + 1], t[i]
    elif op == 'trunc' and t: t = t[:rnd.randrange(len(t))]
    elif op == 'dup' and t:
        i = rnd.randrange(len(t)); t.insert(i, t[i])
    return t

def inputs_for(g, rnd, n_exh_cap=400, exh_len=5, n_rand=40, n_mut=80, long_targets=(30, 120)):
    """token-index sequences: bounded-exhaustive short strings, random derivations, near misses"""
    nt = len(g.terms)
    seqs = all_strings(nt, exh_len, max(1, n_exh_cap // (exh_len + 1) * 2), rnd)
    if len(seqs) > n_exh_cap:
        head = [s for s in seqs if len(s) <= 3]
        tail = [s for s in seqs if len(s) > 3]; rnd.shuffle(tail)
        seqs = head + tail[:max(0, n_exh_cap - len(head))]
    m = productive(g)
    pos = []
    for i in range(n_rand):
        s = random_sentence(g, rnd, target=rnd.choice([3, 6, 10, 20] + list(long_targets)), minlen=m)
        if s is not None: pos.append(s)
    muts = []
    for i in range(n_mut):
        if not pos: break
        muts.append(mutate_tokens(rnd.choice(pos), nt, rnd))
    seen = set(); out = []
    for s in seqs + pos + muts:
        k = tuple(s)
        if k not in seen: seen.add(k); out.append(s)
    return out

# ------------------------------------------------------------------ decorations and profiles

# regex terms used inside grammars: mutually disjoint first-character sets, disjoint from the lower-case/punctuation char
# terms, each deterministic, so that the union automaton needs no determinisation (D8 is C03/C04's subject, not the grammar checks')
GRAMMAR_REGEXES = [('[0-9]+', 'num'), ('[1-9][0-9]*', None), ('[A-Z][A-Z0-9_]*', 'ident'), ('"[^"]*"', 'str'), ('#[^\\x0a]*', None), ('0x[0-9A-F]+', 'hex'), ("'(a|b)'", None), ('@+', 'ats')]

def decorate(g, rnd, typed=0.25, dflt=0.25, vtypes=True, strings=0.2, ctx=0.0, regexes=0.0):
    """vary value types, default functors, typed terms, string terms, contextual functors (structure unchanged)"""
    g = clone(g)
    if vtypes:
        g.vtypes = [rnd.choice(['V', 'V', 'V', 'W', 'I', 'N'] if rnd.random() < 0.5 else ['V', 'V', 'V', 'W', 'I']) for _ in g.nts]
        g.ttstate = rnd.random() < 0.5
    used = {t.text for t in g.terms}
    if regexes:
        firsts = set()
        for j, t in enumerate(g.terms):
            if t.kind == 'c' and rnd.random() < regexes:
                pat, name = rnd.choice(GRAMMAR_REGEXES)
                f = pat[0] if pat[0] != '[' else pat[1]
                if f in firsts or (f in '01' and firsts & set('01')): continue
                if any(u.text[0] == f or (f == '0' and u.text[0] in '0123456789') or (f == '1' and u.text[0] in '0123456789') or (f == 'A' and u.text[0].isupper()) for u in g.terms): continue
                firsts.add(f); g.terms[j] = Term('r', pat, t.prec, t.assoc, name=(name if rnd.random() < 0.6 else None))
    if any(t.kind == 'r' and t.text.startswith('[A-Z') for t in g.terms): strings = 0
    for j, t in enumerate(g.terms):
        if t.kind == 'c' and rnd.random() < strings:
            for _ in range(10):
                txt = ''.join(rnd.choice('ABCDEFGHKLMNPQRSTUVWXYZ_') for _ in range(rnd.choice([2, 2, 3, 4])))
                if txt not in used and not any(u.startswith(txt) or txt.startswith(u) for u in used if len(u) > 1):
                    used.discard(t.text); used.add(txt); g.terms[j] = Term('s', txt, t.prec, t.assoc); break
        if rnd.random() < typed:
            g.terms[j].typed = True if rnd.random() < 0.8 else 'n'      # 'n': functor create<no_type>{} (value type term_value<no_type>)
    for i, r in enumerate(g.rules):
        vt = g.vtypes[r.lhs]
        if vt == 'N':
            if ctx and rnd.random() < ctx: g.rules[i] = Rule(r.lhs, r.rhs, r.prec, 'x')
            continue
        if rnd.random() < dflt:
            if vt in ('V', 'W'):
                g.rules[i] = Rule(r.lhs, r.rhs, r.prec, 'd')
            elif len(r.rhs) == 1 and r.rhs[0][0] == 'n' and g.vtypes[r.rhs[0][1]] == 'I':
                g.rules[i] = Rule(r.lhs, r.rhs, r.prec, 'd')
        elif ctx and rnd.random() < ctx:
            g.rules[i] = Rule(r.lhs, r.rhs, r.prec, 'x')
        elif vt in ('V', 'W') and rnd.random() < 0.12 and any(o != vt and o in ('V', 'W', 'I') for o in g.vtypes):
            # converting functor: returns another value type of this grammar, from which the left side is then constructed
            g.rules[i] = Rule(r.lhs, r.rhs, r.prec, 'c' + rnd.choice([o for o in g.vtypes if o != vt and o in ('V', 'W', 'I')]))
        elif vt == 'I' and rnd.random() < 0.3 and any(sy[0] == 't' and g.terms[sy[1]].kind == 'c' and not g.terms[sy[1]].typed for sy in r.rhs[:9]):
            # helper _eK picking a char term: the left side (long) is constructed from term_value<char>
            ks = [k for k, sy in enumerate(r.rhs[:9]) if sy[0] == 't' and g.terms[sy[1]].kind == 'c' and not g.terms[sy[1]].typed]
            g.rules[i] = Rule(r.lhs, r.rhs, r.prec, 'e%d' % (rnd.choice(ks) + 1))
        elif vt in ('V', 'W') and rnd.random() < 0.12:
            # helper functor _eK: the K-th right-side value is passed through (needs a nonterminal of the same value type at K)
            ks = [k for k, sy in enumerate(r.rhs) if sy[0] == 'n' and g.vtypes[sy[1]] == vt and k < 9]
            if ks: g.rules[i] = Rule(r.lhs, r.rhs, r.prec, 'e%d' % (rnd.choice(ks) + 1))
    if ctx:
        for i, r in enumerate(g.rules):
            if r.ftor == 'x' and rnd.random() < 0.3: g.rules[i] = Rule(r.lhs, r.rhs, rnd.choice([1, 2, 3]), r.ftor)
    rts = [j for j, t in enumerate(g.terms) if t.kind == 'r']
    if len(rts) >= 2 and rnd.random() < 0.3:
        # the display name of a regex term is for messages only: several terms may carry the same one (a decimal and a hex literal both shown as
        # "number"), or the spelling of another term
        other = next((t.text for t in g.terms if t.kind == 's'), None)
        nm = other if (other and rnd.random() < 0.3) else 'number'
        for j in rts: g.terms[j] = Term('r', g.terms[j].text, g.terms[j].prec, g.terms[j].assoc, name=nm, typed=g.terms[j].typed)
    g.note += '+decorated'
    return g

OPCHARS = '+-*/^%<>&|=!~?:@'

def expr_grammar(rnd):
    """E -> E op E | pre E | E post | ( E ) | atom with random precedence / associativity / explicit [n]"""
    nbin = rnd.randint(1, 5); npre = rnd.choice([0, 0, 1, 2]); npost = rnd.choice([0, 0, 1])
    ops = rnd.sample(OPCHARS, nbin + npre + npost)
    terms = []; rules = []
    wide = rnd.random() < 0.2      # precedence levels beyond 16 bits: 1 and 65537 are different levels, 40000 is higher than 3
    def prec(): return rnd.choice([0, 1, 65537, 2, 40000, 3, 100000, -1, -40000, 32768, -65535]) if wide else rnd.choice([0, 1, 1, 2, 2, 3, 4, -1, -2])
    def assoc(): return rnd.choice(['n', 'l', 'l', 'r'])
    atom = len(terms); terms.append(Term('c', 'i'))
    rules.append(Rule(0, [('t', atom)]))
    if rnd.random() < 0.6:
        lp = len(terms); terms.append(Term('c', '(')); rp = len(terms); terms.append(Term('c', ')'))
        rules.append(Rule(0, [('t', lp), ('n', 0), ('t', rp)]))
    for k in range(nbin):
        j = len(terms); terms.append(Term('c', ops[k], prec(), assoc()))
        rules.append(Rule(0, [('n', 0), ('t', j), ('n', 0)], prec=(rnd.choice([1, 2, 3, 5, -1]) if rnd.random() < 0.2 else None)))
    for k in range(npre):
        ch = ops[nbin + k]
        # a prefix operator may reuse a binary operator's character (unary minus)
        if nbin and rnd.random() < 0.5:
            j = 1 + (2 if len(rules) > 1 and terms[1].text == '(' else 0) + rnd.randrange(nbin) if False else None
        j = None
        if nbin and rnd.random() < 0.5:
            cands = [q for q, t in enumerate(terms) if t.text in ops[:nbin]]
            j = rnd.choice(cands)
        if j is None:
            j = len(terms); terms.append(Term('c', ch, prec(), assoc()))
        rules.append(Rule(0, [('t', j), ('n', 0)], prec=(rnd.choice([3, 4, 5, 6] + ([65536, 100000, 70003] if wide else [])) if rnd.random() < 0.6 else None)))
    for k in range(npost):
        j = len(terms); terms.append(Term('c', ops[nbin + npre + k], prec(), assoc()))
        rules.append(Rule(0, [('n', 0), ('t', j)], prec=(rnd.choice([3, 4, 5]) if rnd.random() < 0.3 else None)))
    if rnd.random() < 0.25:
        # a rule without any term (juxtaposition) : E -> E E
        rules.append(Rule(0, [('n', 0), ('n', 0)], prec=(rnd.choice([1, 2, 3]) if rnd.random() < 0.5 else None)))
    # some operators are strings (two-character operators) or typed terms: precedence must come through unchanged
    STR_OPS = ['&&', '||', '==', '!=', '<=', '>=', '<<', '>>', '**', '->', '::', 'or', 'and']
    for j, t in enumerate(terms):
        if t.text in OPCHARS and rnd.random() < 0.25:
            w = rnd.choice(STR_OPS)
            if all(u.text != w for u in terms) and not any(u.text in OPCHARS and (w.startswith(u.text)) and u is not t for u in terms):
                terms[j] = Term('s', w, t.prec, t.assoc)
        if terms[j].text not in 'i()' and rnd.random() < 0.2: terms[j].typed = True
    rnd.shuffle(rules)
    order = list(range(len(terms))); rnd.shuffle(order)   # term listing order must not matter
    inv = {o: n for n, o in enumerate(order)}
    terms2 = [terms[o] for o in order]
    rules2 = [Rule(r.lhs, [(s if s[0] != 't' else ('t', inv[s[1]])) for s in r.rhs], r.prec, r.ftor) for r in rules]
    return Grammar(['E'], terms2, rules2, 0, note='expr')

def dangling_else(rnd):
    pe = rnd.choice([0, 0, 1, 2]); ae = rnd.choice(['n', 'l', 'r'])
    pi = rnd.choice([0, 0, 1, 2]); ai = rnd.choice(['n', 'l', 'r'])
    terms = [Term('c', 'i', pi, ai), Term('c', 'e', pe, ae), Term('c', 'x')]
    rules = [Rule(0, [('t', 0), ('n', 0)], prec=rnd.choice([None, None, 1, 2, 3])),
             Rule(0, [('t', 0), ('n', 0), ('t', 1), ('n', 0)]), Rule(0, [('t', 2)])]
    rnd.shuffle(rules)
    return Grammar(['S'], terms, rules, 0, note='dangling-else')

def with_precedence(g, rnd):
    """random precedence/associativity sprinkled over a generic grammar that has S/R conflicts"""
    g = clone(g)
    for j, t in enumerate(g.terms):
        if rnd.random() < 0.6: g.terms[j] = Term(t.kind, t.text, rnd.choice([-1, 0, 1, 2, 3] if rnd.random() < 0.85 else [1, 65537, 40000, -40000, 32768, 2]), rnd.choice(['n', 'l', 'r']), t.name, t.typed)
    for i, r in enumerate(g.rules):
        if rnd.random() < 0.2: g.rules[i] = Rule(r.lhs, r.rhs, rnd.choice([1, 2, 3, -1]), r.ftor)
    g.note += '+prec'
    return g

ERR_CORE = [
    ('stmt-list', 'L->eps | L I\nI->x ; | error ;'),
    ('stmt-list-paren', 'L->eps | L I\nI->x ; | error ; | ( L ) | ( error )'),
    ('readme-shape', 'X->eps | X E ; | X error ;\nE->E + E | n'),
    ('error-first', 'S->error a | b S | c\n'),
    ('error-last', 'S->a error | a b S | c\n'),
    ('nested-levels', 'P->B | P B\nB->{ L } | { error }\nL->eps | L s ; | L error ; | L B'),
    ('error-only-rule', 'S->L\nL->I | L , I\nI->a | error'),
    ('two-sync', 'S->eps | S T\nT->a b ; | error ; | error .'),
]

def err_core():
    out = []
    for item in ERR_CORE:
        name, spec = item[0], item[1]
        g = simple(spec); g.note = 'errcore:' + name
        out.append(g)
    return out

def add_error_rules(g, rnd):
    g = clone(g)
    for _ in range(rnd.choice([1, 1, 2, 3])):
        cands = [r for r in g.rules if len(r.rhs) >= 1]
        if not cands: break
        r = rnd.choice(cands)
        k = rnd.randrange(len(r.rhs) + 1)
        pre = list(r.rhs[:k]) if rnd.random() < 0.7 else []
        post = [s for s in r.rhs[k:] if s[0] == 't'][-1:] if rnd.random() < 0.8 else []
        if rnd.random() < 0.2 and g.terms: post = [('t', rnd.randrange(len(g.terms)))]
        g.rules.insert(rnd.randrange(len(g.rules) + 1), Rule(r.lhs, pre + [('e',)] + post))
    g.note += '+error'
    return g


def to_custom_lexer(g, rnd):
    """same grammar over custom terms, with a scripted lexer: byte -> (term, lexeme length); lengths > 1 make the lexer
    swallow following bytes (not a longest match), unmapped bytes make it fail, a few foreign bytes map to random terms"""
    g = clone(g)
    term = [-1] * 256; ln = [1] * 256
    for j, t in enumerate(g.terms):
        ch = t.text[0]
        g.terms[j] = Term('k', t.text, t.prec, t.assoc, name=t.display(), typed=(True if rnd.random() < 0.75 else 'n'))
        term[ord(ch)] = j; ln[ord(ch)] = rnd.choice([1, 1, 1, 1, 2, 3])
    for b in rnd.sample(range(256), rnd.choice([0, 2, 6])):
        if term[b] < 0 and b not in b'\t\n\x0b\x0c\r ': term[b] = rnd.randrange(len(g.terms)); ln[b] = rnd.choice([1, 2, 4])
    if rnd.random() < 0.3:
        b = rnd.choice(b' \n\t'); term[b] = rnd.randrange(len(g.terms)); ln[b] = 1      # a whitespace byte that is a term when not skipped
    g.lexspec = (term, ln)
    g.vtypes = [v if v != 'I' else 'V' for v in g.vtypes]
    # helper/converting functors chosen for the old value types no longer fit: use plain logging functors there
    g.rules = [Rule(r.lhs, r.rhs, r.prec, 'f' if (r.ftor[0] in 'ec' and r.ftor not in ('e',)) and r.ftor not in ('f', 'd', 'x') else r.ftor) for r in g.rules]
    g.note += '+customlexer'
    return g


def pad_terms(g, total):
    """the same grammar with unused char terms added until it declares `total` terms: the bit sets over terms have total + 2 bits
    (<eof> and the error token come last), so totals of 62, 63, 126, 127 put those two at machine-word boundaries"""
    g = clone(g)
    used = {t.text for t in g.terms}
    pool = [c for c in dict.fromkeys(list(WIDE_CHARS) + list('!#$%&*+,-/:;<=>?@^_`|~')) if c not in used and c not in g.nts and all(c != u[0] for u in used)]
    for c in pool:
        if len(g.terms) >= total: break
        g.terms.append(Term('c', c))
    for c in 'abcdefghijklmnopqrstuvwxyzABCDEFGHIJKLMNOPQRSTUVWXYZ0123456789':      # more than the printable characters: two-character string terms
        if len(g.terms) >= total: break
        if ('Q_' + c) not in used: g.terms.append(Term('s', 'Q_' + c))
    g.note += '+padded%d' % total
    return g if len(g.terms) == total else None

def pad_front(g, k):
    """k unused char terms declared BEFORE the grammar's own terms: the real terms get the indices k, k+1, ... (k = 64 - j puts the j-th term at the
    first bit of the second machine word of the term bit sets)"""
    g = clone(g)
    used = {t.text for t in g.terms}
    pool = [c for c in list(WIDE_CHARS) if c not in used and c not in g.nts and all(c != u[0] for u in used)]
    extra = [Term('c', c) for c in pool[:k]]
    for c in 'abcdefghijklmnopqrstuvwxyzABCDEFGHIJKLMNOPQRSTUVWXYZ0123456789':
        if len(extra) >= k: break
        if ('Q_' + c) not in used: extra.append(Term('s', 'Q_' + c))
    if len(extra) < k: return None
    g.terms = extra + g.terms
    g.rules = [Rule(r.lhs, [(sy[0], sy[1] + k) if sy[0] == 't' else sy for sy in r.rhs], r.prec, r.ftor) for r in g.rules]
    g.note += '+front%d' % k
    return g

def long_names(g, rnd):
    """names (nonterminals, custom and regex terms) of 30..300 characters that agree in a long common prefix: symbols are bound by their
    names/ids, so any bounded or prefix comparison of names merges two symbols"""
    g = clone(g)
    pre = ''.join(rnd.choice('abcdefghijklmnopqrstuvwxyz_') for _ in range(rnd.choice([29, 31, 32, 40, 63, 64, 70, 130, 255, 256, 300])))
    if rnd.random() < 0.7: g.nts = [pre.upper() + '_' + n for n in g.nts]
    for j, t in enumerate(g.terms):
        if t.kind in ('k', 'r') and (t.name or t.kind == 'k'):
            base = t.name if t.name else t.display()
            if all(c.isalnum() or c == '_' for c in base): g.terms[j] = Term(t.kind, t.text, t.prec, t.assoc, name=pre + '_' + base, typed=t.typed)
            else: g.terms[j] = Term(t.kind, t.text, t.prec, t.assoc, name=pre + '_t%d' % j, typed=t.typed)
    g.note += '+longnames'
    return g

def shuffle_symbols(g, rnd, extras=True):
    """an isomorphic grammar with the nonterminals and terms listed in another order (root no longer first), optionally with an
    unused term, an unused nonterminal, and a declared nonterminal that has no rule at all"""
    g = clone(g)
    nn = len(g.nts); nt = len(g.terms)
    pn = list(range(nn)); rnd.shuffle(pn)          # new position of old nonterminal i is pn[i]
    pt = list(range(nt)); rnd.shuffle(pt)
    nts = [None] * nn; vts = [None] * nn
    for i in range(nn): nts[pn[i]] = g.nts[i]; vts[pn[i]] = g.vtypes[i]
    terms = [None] * nt
    for j in range(nt): terms[pt[j]] = g.terms[j]
    def ms(sy): return ('n', pn[sy[1]]) if sy[0] == 'n' else ('t', pt[sy[1]]) if sy[0] == 't' else sy
    rules = [Rule(pn[r.lhs], [ms(sy) for sy in r.rhs], r.prec, r.ftor) for r in g.rules]
    h = Grammar(nts, terms, rules, pn[g.root], vts, g.note + '+shuffled')
    h.tvtype = g.tvtype; h.lexspec = g.lexspec
    if extras:
        x = rnd.random()
        used = {t.text for t in h.terms}
        if x < 0.3:
            c = next((ch for ch in '%$~`' if ch not in used), None)
            if c: h.terms.insert(rnd.randrange(len(h.terms) + 1), Term('c', c)); h = _reindex_terms_after_insert(h, c)
        elif x < 0.5:
            # a declared nonterminal without any rule; sometimes referenced by a (then useless) rule
            h.nts.append('Norule'); h.vtypes.append('V')
            if rnd.random() < 0.5: h.rules.append(Rule(rnd.randrange(nn), [('n', len(h.nts) - 1), ('t', rnd.randrange(len(h.terms)))]))
    return h

def _reindex_terms_after_insert(h, c):
    k = next(i for i, t in enumerate(h.terms) if t.text == c and t.kind == 'c')
    h.rules = [Rule(r.lhs, [(('t', sy[1] + 1) if sy[0] == 't' and sy[1] >= k else sy) for sy in r.rhs], r.prec, r.ftor) for r in h.rules]
    return h


def add_bag_list(g, rnd, copying=True):
    """graft a list nonterminal with a container value built by the list helpers (create<T>, push_back/emplace_back<C,A>) over an
    existing V-typed nonterminal; returns None if no V-typed nonterminal exists"""
    vs = [i for i, v in enumerate(g.vtypes) if v == 'V']
    if not vs: return None
    g = clone(g)
    x = rnd.choice(vs)
    g.nts.append('LB%d' % len(g.nts)); g.vtypes.append('B'); lb = len(g.nts) - 1
    helper = rnd.choice(['pb', 'eb'] if copying else ['eb'])
    sep = [('t', rnd.randrange(len(g.terms)))] if rnd.random() < 0.5 else []
    shape = rnd.choice(['left', 'left', 'right', 'left-nonempty'])
    if shape == 'left':
        g.rules.append(Rule(lb, [], None, rnd.choice(['nb', 'nb', 'd'])))
        g.rules.append(Rule(lb, [('n', lb), ('n', x)] + sep, None, helper + '1,2'))
    elif shape == 'left-nonempty':
        g.rules.append(Rule(lb, [('n', x)], None, 'f'))          # a logging functor that returns a fresh empty container and consumes the element
        g.rules.append(Rule(lb, [('n', lb)] + sep + [('n', x)], None, helper + '1,%d' % (2 + len(sep))))
    else:
        g.rules.append(Rule(lb, [], None, 'nb'))
        g.rules.append(Rule(lb, [('n', x)] + sep + [('n', lb)], None, helper + '%d,1' % (2 + len(sep))))
    # use the list somewhere: wrap it between two terms in a new alternative of some V/W nonterminal, or as a new root
    hosts = [i for i, v in enumerate(g.vtypes) if v in ('V', 'W')]
    h = rnd.choice(hosts)
    a, b = rnd.randrange(len(g.terms)), rnd.randrange(len(g.terms))
    g.rules.append(Rule(h, [('t', a), ('n', lb), ('t', b)], None, 'f'))
    if rnd.random() < 0.3:
        g.nts.append('RB%d' % len(g.nts)); g.vtypes.append('B'); g.rules.append(Rule(len(g.nts) - 1, [('n', lb)], None, 'd')); g.root = len(g.nts) - 1
    g.note += '+bag'
    return g
