"""Reference canonical LR(1): plain fixpoint closure (no memo tables), conflict detection, the
documented S/R resolution rule, a table-driven driver that returns the action sequence and the
derivation tree, and the documented error-recovery algorithm. Textbook code, independent of ctpg."""
from collections import defaultdict

LEXERR = -1   # pseudo term: the lexer fails at this position

class Table:
    pass

def nullable_first(g):
    nullable = set(); changed = True
    while changed:
        changed = False
        for r in g.rules:
            if r.lhs not in nullable and all(s[0] == 'n' and s[1] in nullable for s in r.rhs):
                nullable.add(r.lhs); changed = True
    first = [set() for _ in g.nts]; changed = True
    while changed:
        changed = False
        for r in g.rules:
            for s in r.rhs:
                if s[0] == 'n':
                    add = first[s[1]]
                else:
                    add = {g.symterm(s)}
                if not add <= first[r.lhs]:
                    first[r.lhs] |= add; changed = True
                if not (s[0] == 'n' and s[1] in nullable): break
    return nullable, first

_MEMO = {}
def build(g):
    """memoised per process (small window): workers look at the same grammar several times"""
    import json
    k = json.dumps(g.to_json(), sort_keys=True)
    tb = _MEMO.get(k)
    if tb is None:
        if len(_MEMO) > 48: _MEMO.clear()
        tb = _MEMO[k] = _build(g)
    return tb

def _build(g):
    """Returns a Table with states (frozensets of (rule, dot, la)), goto, cells and conflicts.
    Rule index len(g.rules) is the augmented rule S' -> root."""
    R = len(g.rules)
    rhs = [r.rhs for r in g.rules] + [(('n', g.root),)]
    lhs = [r.lhs for r in g.rules] + [-1]
    byl = defaultdict(list)
    for i, r in enumerate(g.rules): byl[r.lhs].append(i)
    nullable, first = nullable_first(g)

    def first_of(seq, la):
        out = set()
        for s in seq:
            if s[0] == 'n':
                out |= first[s[1]]
                if s[1] not in nullable: return out
            else:
                out.add(g.symterm(s)); return out
        out.add(la); return out

    def closure(items):
        items = set(items); work = list(items)
        while work:
            ri, dot, la = work.pop()
            r = rhs[ri]
            if dot < len(r) and r[dot][0] == 'n':
                B = r[dot][1]
                for t in first_of(r[dot + 1:], la):
                    for rj in byl.get(B, ()):
                        it = (rj, 0, t)
                        if it not in items:
                            items.add(it); work.append(it)
        return frozenset(items)

    start = closure({(R, 0, g.EOF)})
    states = [start]; index = {start: 0}; goto = {}
    i = 0
    while i < len(states):
        st = states[i]
        bysym = defaultdict(set)
        for ri, dot, la in st:
            r = rhs[ri]
            if dot < len(r): bysym[r[dot]].add((ri, dot + 1, la))
        for sym in sorted(bysym):
            c = closure(bysym[sym])
            if c not in index:
                index[c] = len(states); states.append(c)
            goto[(i, sym)] = index[c]
        i += 1

    # rule precedence / associativity as documented
    def last_term(ri):
        for s in reversed(rhs[ri]):
            if s[0] != 'n': return g.symterm(s)
        return None
    def tprec(t): return g.terms[t].prec if t < g.T else 0
    def tassoc(t): return g.terms[t].assoc if t < g.T else 'n'
    def rprec(ri):
        if g.rules[ri].prec: return g.rules[ri].prec
        lt = last_term(ri)
        return tprec(lt) if lt is not None else 0
    def rassoc(ri):
        lt = last_term(ri)
        return tassoc(lt) if lt is not None else 'n'

    cells = {}       # (state, term) -> ('sh', j) | ('red', r) | ('acc',) | ('rr', (r1, r2, ..))
    conflicts = {}   # (state, term) -> dict(kind='sr'|'rr'|'mixed'|'acc', shift=j|None, reduces=[..], prefer='shift'|'reduce'|None)
    for i, st in enumerate(states):
        red = defaultdict(set); acc = set()
        for ri, dot, la in st:
            if dot == len(rhs[ri]):
                if ri == R: acc.add(la)
                else: red[la].add(ri)
        terms = set(red) | acc
        for (ii, sym), j in goto.items():
            if ii == i and sym[0] != 'n': terms.add(g.symterm(sym))
        for t in terms:
            sym = ('e',) if t == g.ERR else ('t', t)
            sh = goto.get((i, sym))
            rs = sorted(red.get(t, ()))
            if t in acc:
                if rs or sh is not None:
                    conflicts[(i, t)] = dict(kind='acc', shift=sh, reduces=rs, prefer=None)
                cells[(i, t)] = ('acc',)
            elif len(rs) >= 2:
                conflicts[(i, t)] = dict(kind='rr' if sh is None else 'mixed', shift=sh, reduces=rs, prefer=None)
                cells[(i, t)] = ('rr', tuple(rs))
            elif len(rs) == 1 and sh is not None:
                r = rs[0]
                rp, tp = rprec(r), tprec(t)
                if rp > tp or (rp == tp and rassoc(r) == 'l'):
                    cells[(i, t)] = ('red', r); pref = 'reduce'
                else:
                    cells[(i, t)] = ('sh', sh); pref = 'shift'
                conflicts[(i, t)] = dict(kind='sr', shift=sh, reduces=rs, prefer=pref)
            elif len(rs) == 1:
                cells[(i, t)] = ('red', rs[0])
            else:
                cells[(i, t)] = ('sh', sh)
    tb = Table()
    tb.g = g; tb.R = R; tb.rhs = rhs; tb.lhs = lhs; tb.states = states; tb.goto = goto
    tb.cells = cells; tb.conflicts = conflicts
    tb.has_rr = any(c['kind'] in ('rr', 'mixed') for c in conflicts.values())
    tb.has_sr = any(c['kind'] == 'sr' for c in conflicts.values())
    tb.has_acc = any(c['kind'] == 'acc' for c in conflicts.values())
    tb.lr1 = not conflicts
    return tb

class Node:
    __slots__ = ('rule', 'kids', 'tok', 'term')
    def __init__(self, rule=None, kids=None, tok=None, term=None):
        self.rule = rule; self.kids = kids; self.tok = tok; self.term = term

class Result:
    pass

def parse(tb, toks, recover=True, max_steps=None):
    """toks: list of term indices (without eof). Returns Result with:
    ok, actions (list of tuples), reductions (list of (rule, [child descriptors])), tree,
    errors (list of token positions at which a syntax error was reported), err_term."""
    g = tb.g
    toks = list(toks) + [g.EOF]
    st = [0]; vals = []; p = 0
    res = Result(); res.actions = []; res.reductions = []; res.errors = []; res.ok = False; res.tree = None
    res.steps = 0; res.consumed_in_recovery = []; res.popped = []; res.lexerr = None; res.hang = False; res.rr = False; res.maxp = -1; res.lexpoints = []; res.maxdepth = 1
    recovering = False; consuming = False
    limit = max_steps or (50 * len(toks) + 1000) * 4
    while True:
        res.steps += 1
        if res.steps > limit:
            res.hang = True; return res
        if len(st) > res.maxdepth: res.maxdepth = len(st)
        t = g.ERR if recovering else toks[p]
        if not recovering and p > res.maxp:
            res.maxp = p; res.lexpoints.append((len(res.actions), p))
        if t == LEXERR:
            res.lexerr = p; return res
        a = tb.cells.get((st[-1], t))
        if a is None:
            if not recover:
                res.errors.append(p); return res
            if consuming:
                if toks[p] == g.EOF:
                    res.actions.append(('eof-in-recovery',)); return res
                res.actions.append(('consume', toks[p], p)); res.consumed_in_recovery.append(p)
                p += 1; continue
            if not recovering:
                res.errors.append(p); res.actions.append(('error', toks[p], p))
                recovering = True
                continue
            # recovering and the current state cannot act on the error token: pop it
            st.pop()
            if vals: vals.pop()
            res.popped.append(p)
            if not st:
                res.actions.append(('giveup',)); return res
            res.actions.append(('pop', st[-1]))
            continue
        if consuming:
            consuming = False
        if a[0] == 'sh':
            if t == g.ERR:
                st.append(a[1]); vals.append(Node(tok=p, term=g.ERR))
                res.actions.append(('sherr', a[1]))
                recovering = False; consuming = True
            else:
                st.append(a[1]); vals.append(Node(tok=p, term=t))
                res.actions.append(('sh', a[1], t, p)); p += 1
        elif a[0] == 'red':
            r = a[1]; n = len(tb.rhs[r])
            kids = vals[len(vals) - n:] if n else []
            if n:
                del st[-n:]; del vals[-n:]
            j = tb.goto[(st[-1], ('n', tb.lhs[r]))]
            st.append(j)
            node = Node(rule=r, kids=kids, tok=p)
            vals.append(node)
            res.actions.append(('red', r, j)); res.reductions.append(node)
        elif a[0] == 'acc':
            res.ok = True; res.tree = vals[0]; res.actions.append(('acc',)); return res
        else:
            res.rr = True; return res


def state_need(g, tb):
    """(required, allowed, cap): number of reference states the library has to build (reachable without the shifts that the
    documented S/R resolution removes and without R/R cells, whose treatment is undefined), the number it may build, and the
    library's default state cap  sum(len(rule) + 1) * (terms + 2) + 2"""
    out = {}
    for (i, sym), j in tb.goto.items(): out.setdefault(i, []).append((sym, j))
    def reach(certain):
        seen = {0}; work = [0]
        while work:
            x = work.pop()
            for sym, j in out.get(x, ()):
                if sym[0] != 'n':
                    conf = tb.conflicts.get((x, g.symterm(sym)))
                    if conf is not None:
                        if conf['kind'] == 'sr':
                            if conf['prefer'] != 'shift': continue
                        elif certain: continue
                if j not in seen: seen.add(j); work.append(j)
        return seen
    cap = sum(len(r.rhs) + 1 for r in g.rules) * (g.T + 2) + 2
    return len(reach(True)), len(reach(False)), cap

def beyond_default_cap(g, tb=None):
    """the grammar needs more LR(1) states than the library's default cap (recorded finding D16, the subject of C12 only)"""
    req, _, cap = state_need(g, tb if tb is not None else build(g))
    return req > cap
