"""Self-tests of the reference models (oracles)."""
import random, itertools
from . import ref_lr1, gen_grammar as gg

def earley(g, toks):
    """plain Earley recogniser over term indices (no LR machinery)"""
    n = len(toks)
    rules = [(r.lhs, [('n', s[1]) if s[0] == 'n' else ('t', g.symterm(s)) for s in r.rhs]) for r in g.rules]
    byl = {}
    for i, (l, r) in enumerate(rules): byl.setdefault(l, []).append(i)
    S = [set() for _ in range(n + 1)]
    START = -1
    def add(k, it, work):
        if it not in S[k]: S[k].add(it); work.append(it)
    work = []
    add(0, (START, 0, 0), work)
    for k in range(n + 1):
        work = list(S[k])
        while work:
            ri, dot, org = work.pop()
            rhs = [('n', g.root)] if ri == START else rules[ri][1]
            if dot < len(rhs):
                s = rhs[dot]
                if s[0] == 'n':
                    for rj in byl.get(s[1], ()): add(k, (rj, 0, k), work)
                    # nullable completion (Aycock-Horspool style): if an item for s completed at k with origin k
                    for (cj, cd, co) in list(S[k]):
                        if co == k and cj != START and rules[cj][0] == s[1] and cd == len(rules[cj][1]):
                            add(k, (ri, dot + 1, org), work)
                elif k < n and toks[k] == s[1]:
                    S[k + 1].add((ri, dot + 1, org))
            else:
                if ri == START: continue
                l = rules[ri][0]
                for (pj, pd, po) in list(S[org]):
                    prhs = [('n', g.root)] if pj == START else rules[pj][1]
                    if pd < len(prhs) and prhs[pd] == ('n', l): add(k, (pj, pd + 1, po), work)
    return (START, 1, 0) in S[n]

def viable_prefix_len(g, toks):
    """number of leading tokens that form a viable prefix (some sentence starts with them), by Earley over productive rules only"""
    INF = 10 ** 9
    m = gg.productive(g)
    rules = [(r.lhs, [('n', s[1]) if s[0] == 'n' else ('t', g.symterm(s)) for s in r.rhs]) for r in g.rules
             if all(s[0] != 'n' or m[s[1]] < INF for s in r.rhs)]
    if m[g.root] >= INF: return 0
    byl = {}
    for i, (l, r) in enumerate(rules): byl.setdefault(l, []).append(i)
    START = -1; n = len(toks)
    S = [set() for _ in range(n + 1)]
    S[0].add((START, 0, 0))
    for k in range(n + 1):
        work = list(S[k])
        def add(it):
            if it not in S[k]: S[k].add(it); work.append(it)
        while work:
            ri, dot, org = work.pop()
            rhs = [('n', g.root)] if ri == START else rules[ri][1]
            if dot < len(rhs):
                s = rhs[dot]
                if s[0] == 'n':
                    for rj in byl.get(s[1], ()): add((rj, 0, k))
                    for (cj, cd, co) in list(S[k]):
                        if co == k and cj != START and rules[cj][0] == s[1] and cd == len(rules[cj][1]): add((ri, dot + 1, org))
                elif k < n and toks[k] == s[1]:
                    S[k + 1].add((ri, dot + 1, org))
            elif ri != START:
                l = rules[ri][0]
                for (pj, pd, po) in list(S[org]):
                    prhs = [('n', g.root)] if pj == START else rules[pj][1]
                    if pd < len(prhs) and prhs[pd] == ('n', l): add((pj, pd + 1, po))
        if k < n and not S[k + 1]: return k
    return n

def main():
    rnd = random.Random(12345)
    st = gg.grammar_stream(rnd, want_lr1=1.0)
    checked = 0; grammars = 0; errpos = 0
    gs = gg.core_grammars()
    while grammars < 120:
        if gs: g = gs.pop(); tb = ref_lr1.build(g)
        else: g, tb = next(st)
        if not tb.lr1: continue
        grammars += 1
        for s in gg.inputs_for(g, rnd, n_exh_cap=120, exh_len=4, n_rand=10, n_mut=20, long_targets=(15,)):
            if len(s) > 40: continue
            a = ref_lr1.parse(tb, s, recover=False).ok
            b = earley(g, s)
            checked += 1
            if a != b:
                print('SELFTEST FAILED: ref_lr1 and Earley disagree on', g.text(), s, a, b); return 1
            # earliest error detection relative to the language only holds for grammars without unproductive nonterminals
            # (an LR automaton also follows rules that can never be completed)
            if not a and all(x < 10 ** 9 for x in gg.productive(g)):
                r = ref_lr1.parse(tb, s, recover=False)
                vp = viable_prefix_len(g, s)
                if r.errors and r.errors[0] != vp:
                    print('SELFTEST FAILED: ref_lr1 reports the error at token', r.errors[0], 'but the longest viable prefix has', vp, 'tokens:', g.text(), s); return 1
                errpos += 1
    print('selftest ok: ref_lr1 == Earley on %d inputs of %d LR(1) grammars; error position == end of the longest viable prefix on %d rejected inputs' % (checked, grammars, errpos))
    from . import ref_regex
    if ref_regex.selftest(n=300): return 1
    # the pattern parser must agree with the renderer on the frozen corpus (every corpus pattern parses)
    from . import regex_check
    n = len(regex_check.corpus())
    print('selftest ok: %d corpus patterns parse with the reference pattern parser' % n)
    return 0
