"""C04: term sets under the any-token-sequence grammar L -> eps | L t_i, so that the generated lexer alone decides
the outcome. Oracle: reference maximal munch with first-listed priority over the reference automata of the terms."""
import random, collections, traceback, re, os, json
from . import common, ref_regex as rr, emit_grammar as eg, model, diag as dg, ref_lr1
from .grammar import Grammar, Rule, Term

CLASS_KEY = 'class:lexer-union-needs-determinisation'
NESTED_KEY = 'class:regex-nested-loop-stale-merge'

def rxc_nested(ast):
    from .regex_check import nested_loop
    return nested_loop(ast)

def term_ast(t):
    if t.kind == 'r': return rr.parse(t.text.encode('latin-1'))
    a = None
    for ch in t.text.encode('latin-1'):
        p = ('set', frozenset([ch]), bytes([ch]))
        a = p if a is None else ('cat', a, p)
    return a

def token_grammar(terms, note=''):
    rules = [Rule(0, [], None, 'f')]
    for j in range(len(terms)): rules.append(Rule(0, [('n', 0), ('t', j)], None, 'f'))
    return Grammar(['L'], terms, rules, 0, note=note)

KEYWORDS = ['if', 'in', 'int', 'else', 'elif', 'end', 'for', 'fn', 'do', 'double', 'while', 'return', 'ret', 'true', 'try']
OPS = ['=', '==', '===', '<', '<=', '<<', '<<=', '+', '++', '+=', '-', '->', '--', '*', '**', '/', '//', '!', '!=', '&', '&&', '|', '||', '.', '..', '...', ':', '::']
REGEXES = [('ident', '[a-zA-Z_][a-zA-Z_0-9]*'), ('lower', '[a-z]+'), ('int', '[0-9]+'), ('int1', '0|[1-9][0-9]*'), ('float', '[0-9]+\\.[0-9]+'), ('hex', '0x[0-9a-fA-F]+'),
           ('str', '"[^"]*"'), ('sq', "'[^']*'"), ('comment', '#[^\\x0a]*'), ('ws', '[ \\x09]+'), ('nl', '\\x0a'), ('dots', '\\.+'), ('word', '[A-Za-z]+'), ('num', '[0-9]+(\\.[0-9]+)?'),
           ('any', '.'), ('upper', '[A-Z][A-Z0-9_]*'), ('neg', '\\-?[0-9]+'), ('bin', '(0|1)+b'), ('ab', '(ab)+'), ('abc', 'a(b|c)*d')]

def gen_termset(rnd, random_regex=0.3):
    n = rnd.randint(2, 9)
    terms = []; used = set()
    while len(terms) < n:
        x = rnd.random()
        if x < 0.2:
            w = rnd.choice(KEYWORDS)
            if w in used: continue
            used.add(w); terms.append(Term('s', w) if len(w) > 1 else Term('c', w))
        elif x < 0.4:
            w = rnd.choice(OPS)
            if w in used: continue
            used.add(w); terms.append(Term('s', w) if len(w) > 1 else Term('c', w))
        elif x < 0.55:
            w = rnd.choice('abcxyz019;,(){}[] \t\n')
            if w in used: continue
            used.add(w); terms.append(Term('c', w))
        elif x < 0.55 + random_regex * 0.45:
            for _ in range(20):
                ast = rr.gen_ast(rnd, rnd.choice([1, 2, 2, 3]), rnd.choice([rr.ALPHA_SMALL, rr.ALPHA_MED, rr.ALPHA_MED, rr.ALPHA_WIDE]))
                if rr.positions_count(ast) > 14 or rr.Glushkov(ast).nullable: continue
                t = rr.finish_text(rr.render(ast))
                if t is None or t in used or len(t) > 60: continue
                used.add(t); terms.append(Term('r', t.decode('latin-1'), name='R%d' % len(terms))); break
        else:
            nm, pat = rnd.choice(REGEXES)
            if pat in used: continue
            used.add(pat); terms.append(Term('r', pat, name=nm + str(len(terms))))
    for t in terms:
        if rnd.random() < 0.35: t.typed = True
    return terms

FIXED_SETS = [
    ['if', 'else', ('ident', '[a-zA-Z_][a-zA-Z_0-9]*'), ('int', '[0-9]+'), '=', '==', ';'],
    [('ident', '[a-z]+'), 'if', 'in', 'int'],
    ['int', 'in', 'if', ('ident', '[a-z]+')],
    [('float', '[0-9]+\\.[0-9]+'), ('int', '[0-9]+'), '.'],
    [('int', '[0-9]+'), ('float', '[0-9]+\\.[0-9]+'), '.'],
    ['<', '<=', '<<', '<<=', '=', '=='],
    ['<<=', '<<', '<=', '<'],
    [('a', 'a+'), ('b', '(ab)+')],
    [('x', '[a-c]+'), ('y', '[b-d]+')],
    [('first', '[a-z]+'), ('second', '[a-z][a-z]*')],
    ['+', '++', '+=', ('num', '[0-9]+(\\.[0-9]+)?')],
    [('str', '"[^"]*"'), ('ident', '[a-zA-Z_]+'), ',', '{', '}'],
    [('comment', '//[^\\x0a]*'), '/', '//', ('nl', '\\x0a')],
    ['\n', ' ', ('w', '[a-z]+')],
    [('hex', '0x[0-9a-fA-F]+'), ('int1', '0|[1-9][0-9]*'), 'x'],
    ['a', 'ab', 'abc', 'abcd', 'b', 'bc'],
    ['abcd', 'abc', 'ab', 'a'],
    [('any', '.'), 'a', 'ab'],
    ['a', ('any', '.')],
    [('hi', '[\\x80-\\xff]+'), ('lo', '[\\x01-\\x7f]'), ('nul', '\\x00')],
    ['true', 'try', 't', ('ident', '[a-z_]+')],
    [('num', '\\-?(0|[1-9][0-9]*)(\\.[0-9]+)?((e|E)(\\+|\\-)?[0-9]+)?'), '-', ',', '[', ']'],
    ['ab', ('p1', 'a(b)'), ('p2', '[a]b'), ('p3', 'a[b]'), ('p4', '(ab)'), ('p5', '(a)(b)'), 'abc'],
    [('q1', 'x+'), ('q2', 'xx*'), ('q3', 'x{1}x*'), ('q4', 'x(x)*'), ('q5', '(x)+'), ('q6', 'x+y'), 'x'],
    [('string', '"([^\\\\"\\x00-\\x1F]|\\\\[\\\\"/bfnrt]|\\\\u[0-9A-Fa-f]{4})*"'), ':', '{', '}', 'true', 'false', 'null'],
]

def fixed_termsets():
    out = []
    for spec in FIXED_SETS:
        terms = []
        for i, x in enumerate(spec):
            if isinstance(x, tuple): terms.append(Term('r', x[1], name=x[0]))
            elif len(x) == 1: terms.append(Term('c', x))
            else: terms.append(Term('s', x))
        for i, t in enumerate(terms):
            if i % 3 == 1: t.typed = True
        out.append(terms)
    return out

def gen_inputs(rnd, terms, asts, n, maxtok=14):
    outs = []
    alpha = set()
    for a in asts:
        for s in rr.Glushkov(a).sets: alpha |= set(list(s)[:4])
    alpha = sorted(alpha) or [0x61]
    for i in range(n):
        x = rnd.random(); parts = []
        k = rnd.randint(0, maxtok)
        for _ in range(k):
            y = rnd.random()
            if y < 0.7:
                parts.append(rr.sample_string(rnd.choice(asts), rnd))
            elif y < 0.8: parts.append(bytes([rnd.choice(alpha)]))
            elif y < 0.83: parts.append(bytes([rnd.choice([0, 0x7f, 0x80, 0xff, 0x3f, 0x40, 0x60])]))
            if rnd.random() < (0.5 if x < 0.5 else 0.1): parts.append(bytes(rnd.choice(b' \t\n\r\x0b\x0c') for _ in range(rnd.choice([1, 1, 2]))))
        outs.append(b''.join(parts))
    # lexemes longer than 65535 bytes
    for a in asts:
        big = rr.long_sample(a, rnd, rnd.choice([65536, 65537, 70000, 140000]))
        if big is not None:
            outs.append(big); outs.append(rr.sample_string(rnd.choice(asts), rnd) + b' ' + big + b' ' + rr.sample_string(rnd.choice(asts), rnd)); break
    outs += [b'', b' ', b'\n', b' \t\r\n\x0b\x0c']
    return list(dict.fromkeys(outs))

def worker(spec):
    try:
        return _worker(spec)
    except common.BuildError as e:
        return {'counts': {}, 'viol': [(['site:lexer-construction@compile'], 'term sets in the documented syntax do not compile: ' + e.diag[:600], {'spec': spec})], 'samples': [], 'distinct': [], 'incon': []}
    except Exception:
        return {'counts': {}, 'viol': [], 'samples': [], 'distinct': [], 'incon': ['lexer worker: ' + traceback.format_exc()[-1500:]]}

OPT = {0: (True, True), 7: (False, True), 8: (True, False), 9: (False, False), 3: (True, True), 4: (True, True), 14: (True, True)}

def _worker(spec):
    rnd = random.Random(spec['seed'])
    sets = [[Term.from_json(t) for t in ts] for ts in spec['termsets']]
    is_corpus = spec.get('corpus', False)
    gs = [token_grammar(ts, 'tokens') for ts in sets]
    out = {'counts': collections.Counter(), 'viol': [], 'samples': [], 'distinct': [], 'incon': []}
    C = out['counts']
    modes = spec['modes']
    exe, hook_ok = eg.build_tu(eg.emit_tu(gs), spec.get('flavour', 'clang'), extra=eg.mode_defines(modes))
    astss = [[term_ast(t) for t in ts] for ts in sets]
    refs = [rr.TaggedRefDFA(a) for a in astss]
    inputs = [gen_inputs(rnd, ts, a, spec['n_inputs']) for ts, a in zip(sets, astss)]
    jobs = [('D', gi) for gi in range(len(gs))]
    rc0, _, dumps, meta0, err0 = eg.run_jobs(exe, jobs, timeout=300)
    skip = set()
    for gi in range(len(gs)):
        d = dg.parse_diag(dumps.get(gi, {}).get('diag', ''))
        if d.has_rr or d.has_sr or not d.states:
            # two terms with the same id (e.g. the same pattern text twice) collapse into one symbol; parsing an R/R table is documented as undefined
            skip.add(gi); C['termsets_skipped_conflicting_table'] += 1
    jobs = []
    for gi in range(len(gs)):
        if gi in skip: continue
        for idx, d in enumerate(inputs[gi]):
            for m in modes: jobs.append((gi, idx, m, d))
    rc, recs, _, meta, err = eg.run_jobs(exe, jobs, timeout=200)
    byk = {(r.gi, r.idx, r.mode): r for r in recs}
    if rc != 0 or not meta['end']:
        first = next((j for j in jobs if j[0] != 'D' and (j[0], j[1], j[2]) not in byk), None)
        ckeys = ['site:lexer@crash']
        if first is not None and not is_corpus:
            # a wrongly merged automaton (recorded finding classes, decided on the reference side) may also accept the empty string: the parse then never advances
            if not refs[first[0]].deterministic(): ckeys.append(CLASS_KEY)
            if any(rxc_nested(a) for a in astss[first[0]]): ckeys.append(NESTED_KEY)
        out['viol'].append((ckeys, 'run aborted rc=%s timeout=%s at termset %s input %r: %s' % (rc, meta.get('timeout'), [t.text for t in sets[first[0]]] if first else None, (first[3][:60] + b'...' if len(first[3]) > 60 else first[3]) if first else None, err[-300:]),
                            {'termset': [t.to_json() for t in sets[first[0]]] if first else None, 'input': first[3].hex() if first else None}))
    for gi, (g, ts) in enumerate(zip(gs, sets)):
        if gi in skip: continue
        C['termsets'] += 1
        ref = refs[gi]
        det = ref.deterministic()
        C['termsets_union_deterministic' if det else 'termsets_union_needs_determinisation'] += 1
        tskey = 'input:' + common.sha('termset', json.dumps([t.to_json() for t in ts], sort_keys=True))[:16]
        keys = [tskey] + ([] if (det or is_corpus) else [CLASS_KEY])
        if not is_corpus and any(rxc_nested(a) for a in astss[gi]): keys.append(NESTED_KEY)
        rep = {'termset': [t.to_json() for t in ts], 'union_deterministic': det}
        names = [t.display() for t in ts]
        # (1) the merged automaton, read through the hook, as a tagged language
        lexdump = dumps.get(gi, {}).get('lex')
        if lexdump is not None:
            obs = rr.ObsDFA(dg.parse_dfa_dump(lexdump))
            C['lexer_automaton_states_observed'] += obs.n
            try:
                w = rr.tagged_equivalent(ref, obs)
            except OverflowError:
                w = None; C['tag_comparison_too_large'] += 1
            C['evaluations'] += 1
            if w is not None:
                s_ = 0
                for b in w: s_ = ref.step(s_, b)
                want = ref.tag[s_] if s_ >= 0 else -1
                so = 0
                for b in w: so = obs.step(so, b)
                got = obs.rec[so][0] if 0 <= so < obs.n else -1
                out['viol'].append((keys, 'terms %s: after reading %r the generated lexer recognises %s, longest-match/first-listed says %s' % (
                    names, w, names[got] if got >= 0 else 'nothing', names[want] if want >= 0 else 'nothing'), dict(rep, witness=w.hex())))
        else:
            C['hook_unavailable'] += 1
        # (2) end to end
        matchers = {j: (lambda data, pos, j=j: 0) for j in range(len(ts))}
        def lexfun(data, sw, sn):
            ws = (model.WS_NL if sn else model.WS_NONL) if sw else b''
            lx = model.Lexed(); lx.toks = []; lx.lexerr = None
            pos = 0; line = 1; col = 1; n = len(data)
            while True:
                s0 = pos
                while pos < n and data[pos] in ws: pos += 1
                line, col = model.advance(line, col, data[s0:pos])
                if pos == n: lx.eof = (pos, line, col); return lx
                t, l = ref.longest(data, pos)
                if t is None: lx.lexerr = (pos, line, col); lx.eof = None; return lx
                lx.toks.append((t, pos, l, line, col))
                line, col = model.advance(line, col, data[pos:pos + l]); pos += l
        tb = ref_lr1.build(g)
        bad_e2e = 0
        for idx, d in enumerate(inputs[gi]):
            for m in modes:
                r = byk.get((gi, idx, m))
                if r is None: continue
                sw, sn = OPT[m]
                lx = lexfun(d, sw, sn)
                ex = model.expect(g, tb, d, skip_ws=sw, skip_nl=sn, lexed=lx)
                C['evaluations'] += 1; C['tokens_expected'] += len(lx.toks)
                if len(lx.toks) >= 2: out['distinct'].append(common.sha(tskey, d, str(m))[:12])
                problems = []
                if (r.res == 1) != ex.ok: problems.append('result %s expected %s' % (r.res, ex.ok))
                if r.events != ex.events:
                    problems.append('token events %s expected %s' % (r.events[:160], ex.events[:160]))
                if m != 2 and r.stream != ex.stream: problems.append('stream %r expected %r' % (r.stream[:80], ex.stream[:80]))
                if m == 4 and (r.cb[1] - r.cb[4] > 0 or r.cb[2] or r.cb[3]): problems.append('buffer monitor: %s' % r.extra)
                if problems and bad_e2e < 3:
                    bad_e2e += 1
                    out['viol'].append((keys, 'terms %s input %r options(skip_ws=%s,skip_nl=%s) mode %d: %s' % (names, d[:80], sw, sn, m, '; '.join(problems)), dict(rep, input=d.hex(), mode=m)))
        if len(out['samples']) < 2:
            d = inputs[gi][len(inputs[gi]) // 3]
            out['samples'].append({'terms': [(t.kind, t.text) for t in ts], 'input': d.decode('latin-1'), 'expected_tokens': [(names[t[0]], t[1], t[2]) for t in lexfun(d, True, True).toks][:8]})
    return out
