"""Expected observations for one (grammar, input, options) case, derived from the reference models:
lexing (char/string terms; regex terms through ref_regex), the LR driver, the functor event log,
the messages, and the verbose trace."""
from . import ref_lr1
from .ref_lr1 import LEXERR

WS_NL = b'\t\n\x0b\x0c\r '
WS_NONL = b'\t\x0b\x0c\r '

def advance(line, col, chunk):
    for b in chunk:
        if b == 10: line += 1; col = 1
        else: col += 1
    return line, col

class Lexed: pass

def lex(g, data, skip_ws=True, skip_nl=True, matchers=None):
    """Returns Lexed: toks [(term, off, len, line, col)], lexerr (off, line, col) or None, eof (off, line, col)"""
    ws = (WS_NL if skip_nl else WS_NONL) if skip_ws else b''
    out = Lexed(); out.toks = []; out.lexerr = None
    pos = 0; line = 1; col = 1; n = len(data)
    while True:
        s = pos
        while pos < n and data[pos] in ws: pos += 1
        line, col = advance(line, col, data[s:pos])
        if pos == n:
            out.eof = (pos, line, col); return out
        best = None; bl = 0
        for j, t in enumerate(g.terms):
            if t.kind == 'c':
                l = 1 if data[pos] == ord(t.text) else 0
            elif t.kind == 's':
                tb = t.text.encode('latin-1')
                l = len(tb) if data.startswith(tb, pos) else 0
            else:
                l = matchers[j](data, pos) if matchers and j in matchers else 0
            if l > bl: best = j; bl = l
        if best is None:
            out.lexerr = (pos, line, col); out.eof = None; return out
        out.toks.append((best, pos, bl, line, col))
        line, col = advance(line, col, data[pos:pos + bl]); pos += bl

TAG = {'V': 0, 'W': 1, 'M': 9}

class Expected: pass

def expect(g, tb, data, skip_ws=True, skip_nl=True, ctx_mode=None, matchers=None, state_map=None):
    """Full expected observation. state_map: ref state -> lib state (for the verbose trace), optional."""
    lx = lex(g, data, skip_ws, skip_nl, matchers)
    toks = [t[0] for t in lx.toks]
    if lx.lexerr is not None: toks.append(LEXERR)
    res = ref_lr1.parse(tb, toks, recover=g.has_error())
    ex = Expected(); ex.lex = lx; ex.res = res; ex.ok = res.ok
    def tokpos(p):
        if p < len(lx.toks): return lx.toks[p][3], lx.toks[p][4]
        if lx.lexerr is not None: return lx.lexerr[1], lx.lexerr[2]
        return lx.eof[1], lx.eof[2]
    def tokname(p):
        if p < len(lx.toks): return g.tname(lx.toks[p][0])
        return '<eof>'
    # ---- functor events
    ev = []; nid = [1]
    def fresh():
        v = nid[0]; nid[0] += 1; return v
    tokval = {}
    xcount = 0
    red_iter = iter(res.reductions)
    trace = []
    def sm(s): return state_map.get(s, '?%d' % s) if state_map is not None else s
    for a in res.actions:
        if a[0] == 'sh':
            _, st, t, p = a
            term = g.terms[t]; tk = lx.toks[p]
            if term.typed:
                v = fresh(); tokval[p] = v
                ev.append('t%d:%d:%d=%d;' % (t, tk[1], tk[2], v))
            trace.append(('sh', sm(st), data[tk[1]:tk[1] + tk[2]].decode('latin-1')))
        elif a[0] == 'red':
            node = next(red_iter); r = a[1]; rule = g.rules[r]
            args = []
            for kid in node.kids:
                if kid.rule is not None:
                    vt = g.vtypes[g.rules[kid.rule].lhs]
                    args.append(('i%d,' if vt == 'I' else 'v%d,') % kid_val(kid))
                elif kid.term == g.ERR:
                    args.append('e,')
                else:
                    tk = lx.toks[kid.tok]; term = g.terms[kid.term]
                    if term.typed: args.append('T%d:%d:v%d,' % (tk[3], tk[4], tokval[kid.tok]))
                    elif term.kind == 'c': args.append('c%d:%d:%d,' % (tk[3], tk[4], ord(term.text)))
                    else: args.append('s%d:%d:%d:%d,' % (tk[3], tk[4], tk[1], tk[2]))
            vt = g.vtypes[rule.lhs]
            if rule.ftor == 'f':
                v = fresh(); ev.append('r%d(%s)=%d;' % (r, ''.join(args), v)); node_val[id(node)] = v
            elif rule.ftor == 'x':
                if ctx_mode == 21: hdr = '=c#0'
                elif ctx_mode == 22: hdr = '~m#%d' % xcount
                else: hdr = '=m#%d' % xcount
                xcount += 1
                v = fresh(); ev.append('x%d[%s](%s)=%d;' % (r, hdr, ''.join(args), v)); node_val[id(node)] = v
            elif rule.ftor == 'd':
                kids = node.kids
                if len(kids) == 1 and kids[0].rule is not None and g.vtypes[g.rules[kids[0].rule].lhs] == vt:
                    node_val[id(node)] = kid_val(kids[0])       # moved through, no event
                else:
                    v = fresh(); ev.append('D%d(%s)=%d;' % (TAG[vt], ''.join(args), v)); node_val[id(node)] = v
            else:
                node_val[id(node)] = None
            trace.append(('red', r)); trace.append(('goto', sm(a[2])))
        elif a[0] == 'acc': trace.append(('acc',))
        elif a[0] == 'error':
            trace.append(('syntax', g.tname(a[1]) if a[1] != LEXERR else '?')); trace.append(('enter-rec',))
        elif a[0] == 'pop': trace.append(('pop', sm(a[1])))
        elif a[0] == 'giveup': trace.append(('giveup',))
        elif a[0] == 'sherr':
            trace.append(('sh', sm(a[1]), '<error_recovery_token>')); trace.append(('leave-rec',)); trace.append(('enter-cons',))
        elif a[0] == 'consume': trace.append(('consume', g.tname(a[1])))
    ex.events = ''.join(ev)
    ex.trace = trace
    ex.xcount = xcount
    ex.root = node_val.get(id(res.tree)) if res.ok else 0
    node_val.clear()
    # ---- messages (non-verbose)
    msgs = []
    for p in res.errors:
        l, c = tokpos(p)
        msgs.append("[%d:%d] PARSE: Syntax error: Unexpected '%s'\n" % (l, c, tokname(p)))
    if res.lexerr is not None:
        off, l, c = lx.lexerr
        msgs.append('[%d:%d] PARSE: Unexpected character: %s\n' % (l, c, chr(data[off])))
    ex.stream = ''.join(msgs)
    return ex

node_val = {}
def kid_val(kid): return node_val[id(kid)]

import re
_POS = re.compile(r'([csT])(\d+):(\d+):')
def mask_positions(events):
    return _POS.sub(lambda m: m.group(1) + '_:_:', events)
def positions(events):
    return [(m.group(1), int(m.group(2)), int(m.group(3))) for m in _POS.finditer(events)]

# -------------------------------------------------------------------------------------------------
def match_tables(g, tb, dg):
    """Match the library's states (parsed diag) to the reference states by walking both automata from
    state 0 over equal symbol names. Returns (lib->ref map, list of difference strings)."""
    diffs = []
    names = {}   # symbol name -> symbol
    for i, n in enumerate(g.nts): names.setdefault(n, []).append(('n', i))
    for j in range(g.T): names.setdefault(g.tname(j), []).append(('t', j))
    names.setdefault('<error_recovery_token>', []).append(('e',))
    names.setdefault('<eof>', []).append(('t', g.EOF))
    if any(len(v) > 1 for v in names.values()):
        return None, ['ambiguous symbol names; table comparison skipped']
    sym = {k: v[0] for k, v in names.items()}
    lib = {s['idx']: s for s in dg.states}
    if 0 not in lib: return None, ['no state 0 in diagnostics']
    m = {0: 0}; work = [0]
    def item_text(it):
        ri, dot, la = it
        lhs = '##' if ri == tb.R else g.nts[tb.lhs[ri]]
        return (lhs, tuple(g.symname(s) for s in tb.rhs[ri]), dot, g.tname(la))
    while work:
        ls = work.pop(); rs = m[ls]; L = lib[ls]
        want = sorted(item_text(it) for it in tb.states[rs])
        got = sorted(L['items'])
        if want != got:
            miss = [x for x in want if x not in got]; extra = [x for x in got if x not in want]
            diffs.append('state %d (ref %d): items differ: missing %s extra %s' % (ls, rs, miss[:3], extra[:3]))
        edges = {}
        for nm, j in L['goto'].items(): edges[nm] = j
        for nm, a in L['act'].items():
            if a[0] == 'sh': edges[nm] = a[1]
        refedges = {g.symname(s): j for (i, s), j in tb.goto.items() if i == rs}
        for nm, j in edges.items():
            if nm not in refedges:
                diffs.append('state %d: transition on %s not in reference' % (ls, nm)); continue
            if j in m:
                if m[j] != refedges[nm]: diffs.append('state %d on %s: goes to %d (ref %d) but reference goes to %d' % (ls, nm, j, m[j], refedges[nm]))
            elif j in lib:
                m[j] = refedges[nm]; work.append(j)
            else:
                diffs.append('state %d on %s: target %d not listed' % (ls, nm, j))
        # cells
        for t in range(g.T + 2):
            nm = g.tname(t)
            ref = tb.cells.get((rs, t)); conf = tb.conflicts.get((rs, t))
            got = L['act'].get(nm)
            exp = None
            if conf is None:
                if ref is None: exp = None
                elif ref[0] == 'sh': exp = ('sh', None)
                else: exp = ref
            elif conf['kind'] == 'sr':
                exp = ('sr-red', conf['reduces'][0]) if conf['prefer'] == 'reduce' else ('sr-sh', conf['reduces'][0])
            elif conf['kind'] == 'rr': exp = ('rr',)
            elif conf['kind'] == 'mixed': exp = ('anyconf',)
            elif conf['kind'] == 'acc': exp = ('acc-conflict',)
            ok = True
            if exp is None: ok = got is None
            elif exp[0] == 'sh': ok = got is not None and got[0] == 'sh'
            elif exp[0] == 'anyconf': ok = got is not None and got[0] in ('rr', 'sr-red', 'sr-sh')
            elif exp[0] == 'acc-conflict': ok = got is not None and got[0] in ('rr', 'sr-red', 'sr-sh')
            else: ok = got == exp
            if not ok:
                kind = 'cell'
                if exp and exp[0] == 'acc-conflict': kind = 'acc-conflict'
                diffs.append('%s state %d (ref %d) on %s: diagnostics %s, reference %s' % (kind, ls, rs, nm, got, exp if conf is None else (exp, conf)))
    if len(m) != len(tb.states) or len(lib) != len(tb.states):
        diffs.append('state count: library %d, matched %d, reference %d' % (len(lib), len(m), len(tb.states)))
    return m, diffs
