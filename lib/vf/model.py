"""Expected observations for one (grammar, input, options) case, derived from the reference models:
lexing (char/string terms; regex terms through ref_regex), the LR driver, the functor event log,
the messages, and the verbose trace."""
from . import ref_lr1
from .ref_lr1 import LEXERR

WS_NL = b'\t\n\x0b\x0c\r '
WS_NONL = b'\t\x0b\x0c\r '

def advance(line, col, chunk):
    for b in chunk:
        if b == 10: line += 1; col = 1
        else: col += 1
    return line, col

class Lexed: pass

_MATCHERS = {}
def regex_matchers(g):
    """reference matchers for the regex terms of g (cached per grammar key)"""
    k = g.key()
    m = _MATCHERS.get(k)
    if m is None:
        from . import ref_regex as rr
        m = {}
        for j, t in enumerate(g.terms):
            if t.kind == 'r':
                dfa = rr.RefDFA(rr.parse(t.text.encode('latin-1')))
                m[j] = (lambda data, pos, dfa=dfa: max(0, dfa.longest_prefix(data, pos)))
        if len(_MATCHERS) > 500: _MATCHERS.clear()
        _MATCHERS[k] = m
    return m

def lex(g, data, skip_ws=True, skip_nl=True, matchers=None):
    """Returns Lexed: toks [(term, off, len, line, col)], lexerr (off, line, col) or None, eof (off, line, col)"""
    ws = (WS_NL if skip_nl else WS_NONL) if skip_ws else b''
    out = Lexed(); out.toks = []; out.lexerr = None
    pos = 0; line = 1; col = 1; n = len(data)
    if matchers is None and any(t.kind == 'r' for t in g.terms): matchers = regex_matchers(g)
    while True:
        s = pos
        while pos < n and data[pos] in ws: pos += 1
        line, col = advance(line, col, data[s:pos])
        if pos == n:
            out.eof = (pos, line, col); return out
        best = None; bl = 0
        for j, t in enumerate(g.terms):
            if t.kind == 'c':
                l = 1 if data[pos] == ord(t.text) else 0
            elif t.kind == 's':
                tb = t.text.encode('latin-1')
                l = len(tb) if data.startswith(tb, pos) else 0
            else:
                l = matchers[j](data, pos) if matchers and j in matchers else 0
            if l > bl: best = j; bl = l
        if best is None:
            out.lexerr = (pos, line, col); out.eof = None; return out
        out.toks.append((best, pos, bl, line, col))
        line, col = advance(line, col, data[pos:pos + bl]); pos += bl

TAG = {'V': 0, 'W': 1, 'X': 2, 'M': 9, 'B': 8, 'T': 7}

def lex_script(g, data, skip_ws=True, skip_nl=True):
    """tokens as the scripted custom lexer answers; also the expected log entry of every lexer call"""
    ws = (WS_NL if skip_nl else WS_NONL) if skip_ws else b''
    term, ln = g.lexspec
    out = Lexed(); out.toks = []; out.lexerr = None; out.calls = []
    pos = 0; line = 1; col = 1; n = len(data)
    while True:
        s = pos
        while pos < n and data[pos] in ws: pos += 1
        line, col = advance(line, col, data[s:pos])
        if pos == n:
            out.eof = (pos, line, col); return out
        b = data[pos]; t = term[b]
        if t < 0:
            out.calls.append('L%d:%d:%d:%d->fail;' % (pos, n - pos, line, col))
            out.lexerr = (pos, line, col); out.eof = None; return out
        l = min(ln[b], n - pos)
        out.calls.append('L%d:%d:%d:%d->%d:%d;' % (pos, n - pos, line, col, t, l))
        out.toks.append((t, pos, l, line, col))
        line, col = advance(line, col, data[pos:pos + l]); pos += l

class Expected: pass

def expect(g, tb, data, skip_ws=True, skip_nl=True, ctx_mode=None, matchers=None, state_map=None, lexed=None):
    """Full expected observation. state_map: ref state -> lib state (for the verbose trace), optional."""
    if lexed is not None: lx = lexed
    elif getattr(g, 'lexspec', None) is not None: lx = lex_script(g, data, skip_ws, skip_nl)
    else: lx = lex(g, data, skip_ws, skip_nl, matchers)
    toks = [t[0] for t in lx.toks]
    if lx.lexerr is not None: toks.append(LEXERR)
    res = ref_lr1.parse(tb, toks, recover=True)
    ex = Expected(); ex.lex = lx; ex.res = res; ex.ok = res.ok
    def tokpos(p):
        if p < len(lx.toks): return lx.toks[p][3], lx.toks[p][4]
        if lx.lexerr is not None: return lx.lexerr[1], lx.lexerr[2]
        return lx.eof[1], lx.eof[2]
    def tokname(p):
        if p < len(lx.toks): return g.tname(lx.toks[p][0])
        return '<eof>'
    # ---- functor events
    ev = []; nid = [1]
    def fresh():
        v = nid[0]; nid[0] += 1; return v
    tokval = {}
    xcount = 0
    red_iter = iter(res.reductions)
    trace = []
    def sm(s): return state_map.get(s, '?%d' % s) if state_map is not None else s
    calls = getattr(lx, 'calls', None)
    lexat = {}
    if calls is not None:
        for ai, p in res.lexpoints:
            if p < len(calls): lexat.setdefault(ai, []).append(calls[p])
    for ai, a in enumerate(list(res.actions) + [('end',)]):
        for c_ in lexat.get(ai, ()): ev.append(c_)
        if a[0] == 'end': break
        if a[0] == 'sh':
            _, st, t, p = a
            term = g.terms[t]; tk = lx.toks[p]
            if term.typed == 'n': pass
            elif term.typed or term.kind == 'k':
                v = fresh(); tokval[p] = v
                ev.append('t%d:%d:%d=%d;' % (t, tk[1], tk[2], v))
            trace.append(('sh', sm(st), data[tk[1]:tk[1] + tk[2]].decode('latin-1')))
        elif a[0] == 'red':
            node = next(red_iter); r = a[1]; rule = g.rules[r]
            args = []
            for kid in node.kids:
                if kid.rule is not None:
                    vt = g.vtypes[g.rules[kid.rule].lhs]
                    if vt == 'N': args.append('e,')
                    elif vt == 'B':
                        bid, items = kid_val(kid); args.append('b%d[%s],' % (bid, '.'.join(str(x) for x in items)))
                    else: args.append(('i%d,' if vt == 'I' else 'v%d,') % kid_val(kid))
                elif kid.term == g.ERR:
                    args.append('e,')
                else:
                    tk = lx.toks[kid.tok]; term = g.terms[kid.term]
                    if term.typed == 'n': args.append('n%d:%d,' % (tk[3], tk[4]))
                    elif term.typed or term.kind == 'k': args.append('T%d:%d:v%d,' % (tk[3], tk[4], tokval[kid.tok]))
                    elif term.kind == 'c': args.append('c%d:%d:%d,' % (tk[3], tk[4], ord(term.text)))
                    else: args.append('s%d:%d:%d:%d,' % (tk[3], tk[4], tk[1], tk[2]))
            vt = g.vtypes[rule.lhs]
            if rule.ftor == 'f' and vt == 'N':
                ev.append('r%d(%s)=N;' % (r, ''.join(args))); node_val[id(node)] = 0
            elif rule.ftor in ('f', 'st'):
                v = fresh(); ev.append('r%d(%s)=%d;' % (r, ''.join(args), v)); node_val[id(node)] = (v, []) if vt == 'B' else v
            elif rule.ftor == 'lr':
                v = 900000 + r; ev.append('r%d(%s)=%d;' % (r, ''.join(args), v)); node_val[id(node)] = v      # reference to a persistent table entry: copied, never consumed
            elif rule.ftor == 'nb':
                node_val[id(node)] = (fresh(), [])                   # create<Bag>{}: a fresh empty container, no event
            elif rule.ftor[:2] in ('pb', 'eb'):
                ci, ai = (int(x) for x in rule.ftor[2:].split(','))
                bid, items = kid_val(node.kids[ci - 1]); vid = kid_val(node.kids[ai - 1])
                # push_back copies the element by definition: the observed log shows C<id>; the judges strip copy events before comparing
                node_val[id(node)] = (bid, items + [vid])
            elif rule.ftor == 'x':
                # identity (= the caller's object, ~ one and the same temporary), constness, value category (a context passed as an rvalue is
                # forwarded as an rvalue to every contextual functor, whatever overload was used), calls seen so far
                if ctx_mode == 21: hdr = '=cL#0'
                elif ctx_mode in (22, 26): hdr = '~mR#%d' % xcount
                elif ctx_mode in (28, 29, 30): hdr = '=mR#%d' % xcount
                else: hdr = '=mL#%d' % xcount
                xcount += 1
                if vt == 'N':
                    ev.append('x%d[%s](%s)=N;' % (r, hdr, ''.join(args))); node_val[id(node)] = 0
                else:
                    v = fresh(); ev.append('x%d[%s](%s)=%d;' % (r, hdr, ''.join(args), v)); node_val[id(node)] = v
            elif rule.ftor == 'd' and vt == 'B':
                node_val[id(node)] = kid_val(node.kids[0]) if node.kids else (fresh(), [])
            elif rule.ftor == 'd':
                kids = node.kids
                if len(kids) == 1 and kids[0].rule is not None and g.vtypes[g.rules[kids[0].rule].lhs] == vt:
                    node_val[id(node)] = kid_val(kids[0])       # moved through, no event
                else:
                    v = fresh(); ev.append('D%d(%s)=%d;' % (TAG[vt], ''.join(args), v)); node_val[id(node)] = v
            elif rule.ftor[0] == 'e' and rule.ftor[1:].isdigit():
                kk = node.kids[int(rule.ftor[1:]) - 1]
                if kk.rule is not None: node_val[id(node)] = kid_val(kk)      # _eK forwards the K-th value, no functor event
                else: node_val[id(node)] = ord(g.terms[kk.term].text)         # long constructed from term_value<char>
            elif rule.ftor[0] == 'c':
                other = rule.ftor[1:]
                v1 = fresh(); ev.append('r%d(%s)=%d;' % (r, ''.join(args), v1))
                v = fresh(); ev.append('D%d(%s%d,)=%d;' % (TAG[vt], 'i' if other == 'I' else 'v', v1, v)); node_val[id(node)] = v
            else:
                node_val[id(node)] = None
            trace.append(('red', r)); trace.append(('goto', sm(a[2])))
        elif a[0] == 'acc': trace.append(('acc',))
        elif a[0] == 'error':
            trace.append(('syntax', g.tname(a[1]) if a[1] != LEXERR else '?')); trace.append(('enter-rec',))
        elif a[0] == 'pop': trace.append(('pop', sm(a[1])))
        elif a[0] == 'giveup': trace.append(('giveup',))
        elif a[0] == 'sherr':
            trace.append(('sh', sm(a[1]), '<error_recovery_token>')); trace.append(('leave-rec',)); trace.append(('enter-cons',))
        elif a[0] == 'consume': trace.append(('consume', g.tname(a[1])))
    ex.events = ''.join(ev)
    ex.trace = trace
    ex.xcount = xcount
    ex.root = node_val.get(id(res.tree)) if res.ok else 0
    if isinstance(ex.root, tuple): ex.root = ex.root[0]
    node_val.clear()
    # ---- messages (non-verbose)
    msgs = []
    for p in res.errors:
        l, c = tokpos(p)
        msgs.append("[%d:%d] PARSE: Syntax error: Unexpected '%s'\n" % (l, c, tokname(p)))
    if res.lexerr is not None:
        off, l, c = lx.lexerr
        msgs.append('[%d:%d] PARSE: Unexpected character: %s\n' % (l, c, chr(data[off])))
    ex.stream = ''.join(msgs)
    return ex

node_val = {}
def kid_val(kid): return node_val[id(kid)]

import re
_POS = re.compile(r'([csTn])(\d+):(\d+)[:,]')
def mask_positions(events):
    return _POS.sub(lambda m: m.group(1) + '_:_' + m.group(0)[-1], events)
def positions(events):
    return [(m.group(1), int(m.group(2)), int(m.group(3))) for m in _POS.finditer(events)]

# -------------------------------------------------------------------------------------------------
def match_tables(g, tb, dg, dump=None):
    """Match the library's states (parsed diagnostics) to the reference states by their item sets
    (canonical LR(1) states are identified by their items) and compare transitions and cells.
    States that the reference reaches only through a shift that a conflict resolution removed (or
    through an R/R cell, whose treatment is undefined) are optional. Returns (lib->ref map, diffs)."""
    diffs = []
    names = {}
    for i, n in enumerate(g.nts): names.setdefault(n, []).append(('n', i))
    for j in range(g.T): names.setdefault(g.tname(j), []).append(('t', j))
    names.setdefault('<error_recovery_token>', []).append(('e',))
    names.setdefault('<eof>', []).append(('t', g.EOF))
    names.setdefault('##', []).append(('root',))
    if any(len(v) > 1 for v in names.values()) or '.' in names:
        # a term and a nonterminal of one name, or a term named like the position marker of the printed items: the text cannot be read back
        return None, ['ambiguous symbol names; table comparison skipped']
    def item_text(it):
        ri, dot, la = it
        lhs = '##' if ri == tb.R else g.nts[tb.lhs[ri]]
        return (lhs, tuple(g.symname(s) for s in tb.rhs[ri]), dot, g.tname(la))
    ref_items = [tuple(sorted(item_text(it) for it in st)) for st in tb.states]
    by_items = {}
    for i, k in enumerate(ref_items): by_items.setdefault(k, i)
    m = {}
    for L in dg.states:
        k = tuple(sorted(L['items']))
        rs = by_items.get(k)
        if rs is None:
            kern = frozenset(x for x in k if x[2] > 0 or x[0] == '##')
            cand = [i for i, ri in enumerate(ref_items) if frozenset(x for x in ri if x[2] > 0 or x[0] == '##') == kern]
            if cand:
                miss = sorted(set(ref_items[cand[0]]) - set(k))[:3]; extra = sorted(set(k) - set(ref_items[cand[0]]))[:3]
                diffs.append('state %d (kernel of reference state %d): items differ: missing %s extra %s' % (L['idx'], cand[0], miss, extra))
            else:
                diffs.append('state %d: no reference state has its kernel %s' % (L['idx'], sorted(kern)[:3]))
        elif rs in m.values():
            diffs.append('states %d and %d have the same items' % (L['idx'], [a for a, b in m.items() if b == rs][0])); m[L['idx']] = rs
        else:
            m[L['idx']] = rs
    if 0 not in m or m.get(0) != 0: diffs.append('state 0 is not the start state of the reference')
    # required / optional reference states
    def edges(rs, certain):
        for (i, sym), j in tb.goto.items():
            if i != rs: continue
            if sym[0] == 'n': yield j; continue
            t = g.symterm(sym); conf = tb.conflicts.get((rs, t)); cell = tb.cells.get((rs, t))
            if conf is None: yield j
            elif conf['kind'] == 'sr':
                if conf['prefer'] == 'shift': yield j
            elif not certain: yield j
    def reach(certain):
        seen = {0}; work = [0]
        while work:
            x = work.pop()
            for j in edges(x, certain):
                if j not in seen: seen.add(j); work.append(j)
        return seen
    required = reach(True); allowed = reach(False)
    have = set(m.values())
    if not required <= have:
        diffs.append('reference states missing from the diagnostics: %s' % [sorted(ref_items[x])[:2] for x in sorted(required - have)[:2]])
    if not have <= allowed:
        diffs.append('diagnostics contain states unreachable in the reference: %s' % sorted(have - allowed)[:3])
    lib = {s['idx']: s for s in dg.states}
    for ls, rs in m.items():
        L = lib[ls]
        refedges = {g.symname(s): j for (i, s), j in tb.goto.items() if i == rs}
        led = dict(L['goto'])
        for nm, a in L['act'].items():
            if a[0] == 'sh': led[nm] = a[1]
            elif a[0] == 'sr-sh' and dump is not None:
                sy = names.get(nm, [None])[0]
                if sy is not None and sy[0] != 'n':
                    c = dump.cells.get((ls, dump.k['nterm_count'] + g.symterm(sy)))
                    if c: led[nm] = c[1]
        for nm, j in led.items():
            if nm not in refedges:
                diffs.append('state %d: transition on %s not in reference' % (ls, nm)); continue
            if m.get(j) != refedges[nm]:
                diffs.append('state %d on %s: goes to %s (reference state %s), reference goes to %d' % (ls, nm, j, m.get(j), refedges[nm]))
        for nm, j in refedges.items():
            sy = names[nm][0]
            if sy[0] == 'n' and nm not in L['goto']:
                diffs.append('state %d: goto on %s missing' % (ls, nm))
        for t in range(g.T + 2):
            nm = g.tname(t)
            ref = tb.cells.get((rs, t)); conf = tb.conflicts.get((rs, t))
            got = L['act'].get(nm)
            exp = None
            if conf is None:
                if ref is None: exp = None
                elif ref[0] == 'sh': exp = ('sh', None)
                else: exp = ref
            elif conf['kind'] == 'sr':
                exp = ('sr-red', conf['reduces'][0]) if conf['prefer'] == 'reduce' else ('sr-sh', conf['reduces'][0])
            elif conf['kind'] == 'rr': exp = ('rr',)
            elif conf['kind'] == 'mixed': exp = ('rr',)       # two reductions (plus a shift): the R/R conflict is the one that must be reported
            elif conf['kind'] == 'acc': exp = ('acc-conflict',)
            if exp is None: ok = got is None
            elif exp[0] == 'sh': ok = got is not None and got[0] == 'sh'
            elif exp[0] in ('anyconf', 'acc-conflict'): ok = got is not None and got[0] in ('rr', 'sr-red', 'sr-sh')
            else: ok = got == exp
            if not ok:
                kind = 'acc-conflict' if exp and exp[0] == 'acc-conflict' else 'cell'
                diffs.append('%s state %d (ref %d) on %s: diagnostics %s, reference %s' % (kind, ls, rs, nm, got, exp if conf is None else (exp, conf)))
    return m, diffs
