"""C12 parts 2-4: default capacities of lexer automaton / parse table, user-supplied limits around the real need,
fixed stacks used with cstring_buffer."""
import random, collections, traceback, re, itertools
from . import common, ref_lr1, gen_grammar as gg, emit_grammar as eg, model, diag as dg, lexer_check as lxc
from .grammar import Grammar, Rule, Term, simple

STACK_SITE = 'site:context_parse/cvector-stack@cstring_buffer'

def stack_finding_applies(g, tb, data, opt=0):
    """the recorded finding D6 covers exactly the inputs whose parse needs more stack entries than the documented
    capacity N + (number of empty rules) + 1 of cstring_buffer<N> (N = text length + 1); an overflow below that is new"""
    ex = model.expect(g, tb, data, skip_ws=not (opt & 1), skip_nl=not (opt & 2))
    cap = (len(data) + 1) + sum(1 for r in g.rules if len(r.rhs) == 0) + 1
    return ex.res.maxdepth > cap

def strip_caps(diag_text):
    t = re.sub(r'Parser object size: \d+\n', '', diag_text)
    t = re.sub(r'\(cap: \d+\)', '', t)
    return t

# ------------------------------------------------------------------ part 2: default caps
DEFAULT_CAP_SITE = 'site:parser/default-state_count_cap@lr1-states-exceed-situation_count'

def default_cap_keys(g, diag):
    """the recorded finding D16 covers exactly the grammars whose LR(1) automaton (states the documented conflict resolution keeps
    reachable, counted by the reference construction) is larger than the default cap; any other rejection is new"""
    keys = ['input:' + g.key()]
    if 'State count exceeds the cap' in diag and ref_lr1.beyond_default_cap(g): keys.append(DEFAULT_CAP_SITE)
    return keys

BEYOND_TMPL = r'''
#include "vf_driver.hpp"
using namespace ctpg; using namespace ctpg::buffers; using namespace ctpg::ftors;
%(decl)s
int main() {
  try { const auto& p = g0::get(); std::ostringstream d; p.write_diag_str(d); std::printf("CONSTRUCTED %%s\n", vf::hex(d.str()).c_str()); }
  catch (const std::exception& e) { std::printf("THREW %%s\n", e.what()); }
  std::printf("END\n"); return 0; }
'''

def beyond_cap_witnesses():
    gs = [simple('N0->c N1; N1->N3; N1->c N2 N3; N2->N2 a c N2; N2->N0 N0; N3->N4; N4->N2 a N0 b; N4->b; N4->N0 N1 N2')]
    return gs

def near_cap_corpus(quick):
    """frozen grammars (found by a directed random search) whose LR(1) automaton needs between 80% and 120% of the default state cap:
    (within the cap, beyond the cap). A cap formula that shrinks a little fails on the first list."""
    import json, os
    rows = [json.loads(l) for l in open(os.path.join(common.VERIF, 'corpus', 'near_cap_grammars.jsonl'))]
    within = [r for r in rows if r['need'] <= r['cap']]; beyond = [r for r in rows if r['need'] > r['cap']]
    if quick: within = within[:10]; beyond = beyond[-3:]
    mk = lambda r: simple(r['grammar'])
    return [mk(r) for r in within], [mk(r) for r in beyond]

def beyond_cap_worker(spec):
    """grammars whose LR(1) automaton is larger than the default state cap, constructed with default limits at compile time and at run time"""
    out = {'counts': collections.Counter(), 'viol': [], 'samples': [], 'distinct': [], 'incon': []}
    C = out['counts']
    try:
        g = Grammar.from_json(spec['grammar']); tb = ref_lr1.build(g)
        req, allowed, cap = ref_lr1.state_need(g, tb)
        C['evaluations'] += 1; C['grammars_needing_more_states_than_default_cap'] += (req > cap); out['distinct'].append(g.key())
        res = {}
        maxitems = max(len(st) for st in tb.states)
        for mode in ('compile_time', 'run_time', 'user_limits_compile_time', 'user_limits_run_time'):
            # the documented remedy: user limits of (at least) the needed size must construct the parser, also above the default cap
            lim = (req + 2, maxitems + 2) if mode.startswith('user_limits') else None
            src = BEYOND_TMPL % {'decl': eg.emit_one(g, 0, runtime_ctor=mode.endswith('run_time'), limits=lim)}
            try:
                exe, _ = eg.build_tu(src, 'clang', extra=eg.mode_defines([0]), name='beyond')
            except common.BuildError as e:
                res[mode] = 'rejected by the compiler'
                if lim and 'ctpg.hpp' in e.diag:
                    out['viol'].append((['input:' + g.key() + ':user-limits'], 'grammar %s needs %d LR(1) states (default cap %d): constexpr construction with user limits %s is rejected: %s' % (
                        g.text(), req, cap, lim, ' '.join(l.strip() for l in e.diag.split('\n') if 'exceeds' in l)[:200]), {'grammar': g.to_json(), 'limits': lim, 'diag': e.diag[:1500]}))
                    continue
                if mode.endswith('run_time') or 'ctpg.hpp' not in e.diag: out['incon'].append('beyond-cap build: ' + e.diag[:600]); continue
                out['viol'].append((default_cap_keys(g, e.diag), 'grammar %s needs %d LR(1) states, default cap %d: constexpr construction with the default limits is rejected: %s' % (
                    g.text(), req, cap, ' '.join(l.strip() for l in e.diag.split('\n') if 'exceeds' in l)[:200]), {'grammar': g.to_json(), 'need': req, 'cap': cap, 'diag': e.diag[:1500]}))
                continue
            rc, so, se, to = common.run(exe, timeout=300)
            text = so.decode('latin-1')
            if 'END' not in text:
                out['viol'].append((['input:' + g.key(), 'site:construction@crash'], 'grammar %s: run-time construction crashed rc=%s %s' % (g.text(), rc, se.decode('latin-1', 'replace')[-300:]), {'grammar': g.to_json()})); continue
            if text.startswith('THREW'):
                res[mode] = text.split('\n')[0]
                if lim:
                    out['viol'].append((['input:' + g.key() + ':user-limits'], 'grammar %s needs %d LR(1) states (default cap %d): run-time construction with user limits %s throws: %s' % (
                        g.text(), req, cap, lim, text.split('\n')[0][6:]), {'grammar': g.to_json(), 'limits': lim}))
                    continue
                out['viol'].append((default_cap_keys(g, text), 'grammar %s needs %d LR(1) states, default cap %d: run-time construction with the default limits throws: %s' % (
                    g.text(), req, cap, text.split('\n')[0][6:]), {'grammar': g.to_json(), 'need': req, 'cap': cap}))
            else:
                h = dg.parse_diag(bytes.fromhex(text.split()[1]).decode('latin-1')).header
                res[mode] = 'constructed: %s states, cap %s' % (h.get('states'), h.get('state_cap'))
                if h.get('states', 0) > h.get('state_cap', 0) or h.get('states', 0) < req:
                    out['viol'].append((['input:' + g.key()], 'grammar %s needs %d states: constructed with %s states, cap %s' % (g.text(), req, h.get('states'), h.get('state_cap')), {'grammar': g.to_json()}))
        out['samples'].append({'grammar': g.text(), 'reference_states_required': req, 'default_cap': cap, 'observed': res})
    except Exception:
        out['incon'].append('beyond-cap worker: ' + traceback.format_exc()[-1200:])
    return out

def default_caps_worker(spec):
    out = {'counts': collections.Counter(), 'viol': [], 'samples': [], 'distinct': [], 'incon': []}
    C = out['counts']
    try:
        gs = [Grammar.from_json(j) for j in spec['grammars']]
        runtime = {i for i in range(len(gs)) if i % 2 == 1}
        try:
            exe, hook_ok = eg.build_tu(eg.emit_tu(gs, runtime_ctor=runtime), 'clang', extra=eg.mode_defines([0]))
        except common.BuildError as e:
            if len(gs) == 1:
                g = gs[0]
                out['viol'].append((default_cap_keys(g, e.diag), 'grammar %s: construction with the default limits is rejected: %s' % (g.text(), e.diag[:400]), {'grammar': g.to_json(), 'diag': e.diag[:1500]}))
                return out
            for g in gs:     # find the culprit
                sub = default_caps_worker({'grammars': [g.to_json()]})
                for k in ('viol', 'incon', 'distinct', 'samples'): out[k] += sub[k]
                for k, v in sub['counts'].items(): C[k] += v
            return out
        rc, recs, dumps, meta, err = eg.run_jobs(exe, [('D', gi) for gi in range(len(gs))], timeout=300)
        if rc != 0 or not meta['end']:
            out['viol'].append((['site:construction@crash'], 'construction / diagnostics crashed rc=%s: %s %s' % (rc, meta['cvec'][:1], err[-300:]), {'grammars': spec['grammars']})); return out
        for gi, g in enumerate(gs):
            C['evaluations'] += 1
            d = dg.parse_diag(dumps[gi]['diag']); h = d.header
            C['parsers_constructed_at_%s' % ('run_time' if gi in runtime else 'compile_time')] += 1
            out['distinct'].append(g.key())
            if h.get('states', 0) > h.get('state_cap', 0) or h.get('max_sit', 0) > h.get('sit_cap', 0):
                out['viol'].append((['input:' + g.key()], 'grammar %s: %s states (cap %s), %s items per state (cap %s)' % (g.text(), h.get('states'), h.get('state_cap'), h.get('max_sit'), h.get('sit_cap')), {'grammar': g.to_json()}))
            if 'dump' in dumps[gi]:
                k = dg.parse_dump(dumps[gi]['dump']).k
                nlex = len(dg.parse_dfa_dump(dumps[gi].get('lex', '')))
                C['lexer_automata_checked'] += 1
                if nlex > k['lexer_dfa_size']:
                    out['viol'].append((['input:' + g.key()], 'grammar %s: lexer automaton has %d states, capacity %d' % (g.text(), nlex, k['lexer_dfa_size']), {'grammar': g.to_json()}))
        if meta['cvec']:
            out['viol'].append((['site:construction@cvector'], 'cvector hook fired during construction: %s' % meta['cvec'][:2], {'grammars': spec['grammars']}))
        out['samples'].append({'grammar': gs[0].text(), 'header': dg.parse_diag(dumps[0]['diag']).header})
    except Exception:
        out['incon'].append('capacity worker: ' + traceback.format_exc()[-1200:])
    return out

# ------------------------------------------------------------------ part 3: user limits around the real need
LIM_TMPL = r'''
#include "vf_driver.hpp"
using namespace ctpg; using namespace ctpg::buffers; using namespace ctpg::ftors;
%(decls)s
template<class F> void variant(const char* tag, F make, const std::vector<std::string>& inputs) {
  try {
    const auto& p = make();
    std::ostringstream d; p.write_diag_str(d);
    std::printf("V %%s constructed %%s", tag, vf::hex(d.str()).c_str());
    for (auto& in : inputs) { vf::S.reset(); string_buffer b{ std::string(in) }; std::ostringstream ss; auto r = p.parse(b, ss); std::printf(" %%d:%%s:%%s", int(r.has_value()), vf::S.ev.c_str(), vf::hex(ss.str()).c_str()); }
    std::printf("\n");
  } catch (const std::exception& e) { std::printf("V %%s threw %%s\n", tag, e.what()); }
}
int main(int argc, char** argv) {
  std::vector<std::string> inputs; { std::ifstream in(argv[1]); std::string l; while (std::getline(in, l)) inputs.push_back(vf::unhex(l == "-" ? "" : l)); }
%(calls)s
  std::printf("END\n"); return 0; }
'''

def limits_worker(spec):
    out = {'counts': collections.Counter(), 'viol': [], 'samples': [], 'distinct': [], 'incon': []}
    C = out['counts']
    try:
        g = Grammar.from_json(spec['grammar']); rnd = random.Random(spec['seed'])
        tb = ref_lr1.build(g)
        # stage 1: real need with default limits
        exe, hook_ok = eg.build_tu(eg.emit_tu([g]), 'clang', extra=eg.mode_defines([0]))
        rc, recs, dumps, meta, err = eg.run_jobs(exe, [('D', 0)], timeout=120)
        h = dg.parse_diag(dumps[0]['diag']).header
        ns, ni = h['states'], h['max_sit']
        C['evaluations'] += 1; out['distinct'].append(g.key())
        seqs = gg.inputs_for(g, rnd, n_exh_cap=40, exh_len=4, n_rand=10, n_mut=10, long_targets=(12,))
        inputs = [b''.join(g.terms[t].text.encode('latin-1') for t in s) for s in seqs][:40]
        variants = [('default', None), ('exact', (ns, ni)), ('plus1', (ns + 1, ni + 1)), ('big', (ns * 3 + 7, ni * 2 + 5)), ('states-1', (ns - 1, ni)), ('items-1', (ns, ni - 1)), ('both-1', (ns - 1, ni - 1))]
        variants = [v for v in variants if v[1] is None or (v[1][0] >= 1 and v[1][1] >= 1)]
        decls = []; calls = []
        for k, (tag, lim) in enumerate(variants):
            body = eg.emit_one(g, k, runtime_ctor=True, limits=lim)
            decls.append(body)
            calls.append('  variant("%s", []() -> decltype(auto) { return g%d::get(); }, inputs);' % (tag, k))
        src = LIM_TMPL % {'decls': '\n'.join(decls), 'calls': '\n'.join(calls)}
        exe2, _ = eg.build_tu(src, 'clang', extra=eg.mode_defines([0]), name='limits')
        import tempfile, os
        d = os.path.join(common.WORK, 'jobs'); os.makedirs(d, exist_ok=True)
        fd, path = tempfile.mkstemp(prefix='l', dir=d)
        with os.fdopen(fd, 'w') as f: f.write('\n'.join(eg.hexin(x) for x in inputs) + '\n')
        try:
            rc, so, se, to = common.run(exe2, [path], timeout=300)
        finally:
            os.unlink(path)
        text = so.decode('latin-1')
        res = {}
        for ln in text.split('\n'):
            p = ln.split(' ')
            if p[0] == 'V': res[p[1]] = (p[2], p[3:] )
        if 'END' not in text:
            last = [t for t, _ in variants if t in res]
            out['viol'].append((['input:' + g.key(), 'site:limits@crash'], 'grammar %s (needs %d states, %d items): run with user limits crashed rc=%s after variants %s: %s' % (g.text(), ns, ni, rc, last, se.decode('latin-1', 'replace')[-300:]), {'grammar': g.to_json()}))
        base = res.get('default')
        for tag, lim in variants:
            r = res.get(tag)
            if r is None or base is None: continue
            C['limit_variants_observed'] += 1
            suff = tag in ('default', 'exact', 'plus1', 'big')
            if suff:
                if r[0] != 'constructed':
                    out['viol'].append((['input:' + g.key() + ':' + tag], 'grammar %s needs %d states / %d items per state; with limits %s construction %s' % (g.text(), ns, ni, lim, ' '.join(r[1])[:100]), {'grammar': g.to_json(), 'limits': lim}))
                elif strip_caps(bytes.fromhex(r[1][0]).decode('latin-1')) != strip_caps(bytes.fromhex(base[1][0]).decode('latin-1')) or r[1][1:] != base[1][1:]:
                    out['viol'].append((['input:' + g.key() + ':' + tag], 'grammar %s: parser built with sufficient limits %s differs from the one built with default limits (diagnostics or parse results)' % (g.text(), lim), {'grammar': g.to_json(), 'limits': lim}))
            else:
                C['insufficient_limits_tried'] += 1
                if r[0] == 'constructed':
                    same = strip_caps(bytes.fromhex(r[1][0]).decode('latin-1')) == strip_caps(bytes.fromhex(base[1][0]).decode('latin-1')) and r[1][1:] == base[1][1:]
                    out['viol'].append((['input:' + g.key() + ':' + tag], 'grammar %s needs %d states / %d items per state; limits %s are too small but a parser was constructed (%s the default one)' % (
                        g.text(), ns, ni, lim, 'behaving like' if same else 'DIFFERENT from'), {'grammar': g.to_json(), 'limits': lim}))
        # compile-time: insufficient limits must not be a constant expression, sufficient ones must be
        for tag, lim in [('exact', (ns, ni)), ('states-1', (ns - 1, ni)), ('items-1', (ns, ni - 1))]:
            if lim[0] < 1 or lim[1] < 1: continue
            src = '#include "vf_driver.hpp"\nusing namespace ctpg; using namespace ctpg::buffers; using namespace ctpg::ftors;\n' + eg.emit_one(g, 0, runtime_ctor=False, limits=lim) + '\nint main() { return 0; }\n'
            for fl in ('gsyntax', 'csyntax'):
                C['constant_evaluations_of_construction'] += 1
                try:
                    common.build(src, fl, name='limct', extra=['-DVF_NO_ACCESS']); ok = True
                except common.BuildError as e:
                    ok = False; diag = e.diag
                if tag == 'exact' and not ok:
                    out['viol'].append((['input:' + g.key() + ':ct-' + tag], 'grammar %s: constexpr construction with exactly sufficient limits %s is rejected by %s: %s' % (g.text(), lim, fl, diag[:300]), {'grammar': g.to_json(), 'limits': lim}))
                if tag != 'exact' and ok:
                    out['viol'].append((['input:' + g.key() + ':ct-' + tag], 'grammar %s needs %d states / %d items; constexpr construction with too small limits %s is accepted by %s' % (g.text(), ns, ni, lim, fl), {'grammar': g.to_json(), 'limits': lim}))
        out['samples'].append({'grammar': g.text(), 'need': (ns, ni), 'variants': {t: (res[t][0] if t in res else None) for t, _ in variants}})
    except common.BuildError as e:
        out['incon'].append('limits worker build: ' + e.diag[:600])
    except Exception:
        out['incon'].append('limits worker: ' + traceback.format_exc()[-1200:])
    return out

# ------------------------------------------------------------------ part 4: fixed stacks with cstring_buffer
STACK_TMPL = r'''
#include "vf_driver.hpp"
using namespace ctpg; using namespace ctpg::buffers; using namespace ctpg::ftors;
%(decl)s
template<class B> int one(const B& b) { try { std::ostringstream ss; auto r = g0::get().parse(b, ss); return int(r.has_value()); } catch (const std::exception& e) { std::printf("X %%s\n", e.what()); return -1; } }
int main() {
%(calls)s
  std::printf("END\n"); return 0; }
'''

def stack_worker(spec):
    out = {'counts': collections.Counter(), 'viol': [], 'samples': [], 'distinct': [], 'incon': []}
    C = out['counts']
    try:
        g = Grammar.from_json(spec['grammar']); rnd = random.Random(spec['seed'])
        g.vtypes = ['I'] * len(g.nts)     # trivially destructible values: the fixed value stack is used too
        for i, r in enumerate(g.rules): g.rules[i] = Rule(r.lhs, r.rhs, r.prec, 'f')
        tb = ref_lr1.build(g)
        m = gg.productive(g)
        inputs = []
        for _ in range(spec['n_inputs']):
            s = gg.random_sentence(g, rnd, target=rnd.choice([2, 5, 10, 20, 30]), minlen=m)
            if s is not None and len(s) <= 60 and spec['n_inputs']: inputs.append(b''.join(g.terms[t].text.encode('latin-1') for t in s))
        inputs += [bytes.fromhex(h) for h in spec.get('extra_inputs', [])]
        # boundary: dense short texts (accepted or not) whose parse needs exactly the documented capacity N + E + 1, or one entry less
        nb = 0
        cands = [b''.join(g.terms[t].text.encode('latin-1') for t in seq) for L in range(0, 6) for seq in itertools.islice(itertools.product(range(len(g.terms)), repeat=L), 400)]
        rnd.shuffle(cands)
        for d in cands[:600]:
            if nb >= spec.get('n_boundary', 12): break
            ex = model.expect(g, tb, d)
            if ex.res.hang or ex.lex.lexerr is not None: continue
            cap = (len(d) + 1) + sum(1 for r in g.rules if len(r.rhs) == 0) + 1
            if ex.res.maxdepth in (cap, cap - 1):
                inputs.append(d); nb += 1
                C['boundary_inputs_depth_equals_capacity'] += (ex.res.maxdepth == cap)
                C['boundary_inputs_depth_one_below_capacity'] += (ex.res.maxdepth == cap - 1)
        inputs = list(dict.fromkeys(inputs))
        calls = []
        for k, d in enumerate(inputs):
            lit = eg.cstr(d.decode('latin-1'))
            calls.append('  { int a = one(cstring_buffer(%s)); int b = one(string_buffer(std::string(%s, %d))); std::printf("S %d %%d %%d\\n", a, b); }' % (lit, lit, len(d), k))
        src = STACK_TMPL % {'decl': eg.emit_one(g, 0), 'calls': '\n'.join(calls)}
        exe, _ = eg.build_tu(src, 'asan0', extra=eg.mode_defines([0]) + (['-fbracket-depth=8192'] if spec.get('long_literals') else []), name='stacks')      # (clang's fold-expression limit is a compiler knob)
        rc, so, se, to = common.run(exe, timeout=300)
        text = so.decode('latin-1')
        if 'END' not in text:
            out['viol'].append((['input:' + g.key()], 'grammar %s: parsing cstring_buffer inputs aborted rc=%s: %s %s' % (g.text(), rc, text[-200:], se.decode('latin-1', 'replace')[-500:]), {'grammar': g.to_json()}))
        threw = None
        for ln in text.split('\n'):
            p = ln.split()
            if not p: continue
            if p[0] == 'X': threw = ln[2:]
            elif p[0] == 'S':
                k, a, b = int(p[1]), int(p[2]), int(p[3]); d = inputs[k]
                C['evaluations'] += 1; C['fixed_stack_parses'] += 1
                out['distinct'].append(common.sha(g.key(), d)[:12])
                if a != b and not spec.get('safety_only'):
                    keys = ['input:' + common.sha(g.key(), d)[:16]] + ([STACK_SITE] if threw and 'capacity' in threw and stack_finding_applies(g, tb, d) else [])
                    out['viol'].append((keys, 'grammar %s input %r (%d bytes): parse through cstring_buffer gives %d (%s), through string_buffer %d' % (g.text(), d if len(d) <= 80 else d[:40] + b'...', len(d), a, threw, b), {'grammar': g.to_json(), 'input': d.hex()}))
                threw = None
        out['samples'].append({'grammar': g.text(), 'inputs': [d.decode('latin-1') for d in inputs[:4]]})
    except common.BuildError as e:
        out['incon'].append('stack worker build: ' + e.diag[:600])
    except Exception:
        out['incon'].append('stack worker: ' + traceback.format_exc()[-1200:])
    return out

def nullable_rich(rnd, n):
    """LR(1) grammars with runs of nullable symbols in front of tokens"""
    out = [simple('S->eps | E F G ( S )\nE->eps\nF->eps\nG->eps'), simple('S->A B C d\nA->a | eps\nB->b | eps\nC->c | eps'), simple('L->L a | eps'), simple('S->E S x | y\nE->eps'),
           # the whole text is shifted without a reduction, then one more entry is pushed (error token / an empty rule used twice)
           simple('S->a b c | a b error'), simple('S->( B\nB->x ) | x x ) | x x error'), simple('S->O a O b\nO->eps'), simple('S->O O a\nO->eps | o'), simple('S->a S | eps'), simple('S->a S b | error')]
    st = gg.grammar_stream(rnd, want_lr1=1.0)
    tries = 0
    while len(out) < n and tries < 20000:
        tries += 1
        g, tb = next(st)
        nullable, _ = ref_lr1.nullable_first(g)
        if len(nullable) >= 2 or (len(nullable) >= 1 and rnd.random() < 0.2): out.append(g)
    return out[:n]
