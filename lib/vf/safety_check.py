"""C06: hostile inputs on sanitizer builds, bounds-monitoring buffer, cvector hook, watchdog; standalone regex matcher."""
import random, collections, traceback, os, json, re, subprocess
from . import common, ref_lr1, ref_regex as rr, emit_grammar as eg, gen_grammar as gg, lexer_check as lxc, regex_check as rxc, diag as dg
from .grammar import Grammar, Rule, Term, simple

def hostile_inputs(g, rnd, tier):
    q = tier == 'quick'
    outs = [b'']
    outs += [bytes([b]) for b in range(256)]
    tt = [t.text.encode('latin-1') for t in g.terms if t.kind in ('c', 's', 'k')] or [b'a']
    for t in g.terms:
        if t.kind == 'r':
            try: tt.append(rr.sample_string(rr.parse(t.text.encode('latin-1')), rnd))
            except Exception: pass
    ws = b' \t\n\r\x0b\x0c'
    for n in (1, 2, 7, 64, 4096): outs.append(bytes(rnd.choice(ws) for _ in range(n)))
    m = gg.productive(g)
    sents = []
    for _ in range(12 if q else 40):
        s = gg.random_sentence(g, rnd, target=rnd.choice([3, 8, 20, 60]), minlen=m)
        if s is not None:
            d = b''.join((g.terms[t].text.encode('latin-1') if g.terms[t].kind != 'r' else rr.sample_string(rr.parse(g.terms[t].text.encode('latin-1')), rnd)) + (b' ' if rnd.random() < 0.3 else b'') for t in s)
            sents.append(d)
    for d in sents:
        outs.append(d)
        for k in range(len(d)): outs.append(d[:k])                         # truncated at every prefix
        for _ in range(4):
            if d:
                i = rnd.randrange(len(d)); outs.append(d[:i] + bytes([rnd.choice([0, 0x80, 0xff, 0x7f, 0x0a, 0x20, d[i]])]) + d[i + 1:])
                outs.append(d + bytes(rnd.choice(ws) for _ in range(rnd.randint(1, 3))))        # ends in whitespace
                outs.append(bytes(rnd.choice(ws) for _ in range(2)) + d)
    for _ in range(60 if q else 400):
        outs.append(bytes(rnd.randrange(256) for _ in range(rnd.randint(1, 64))))
        outs.append(b''.join(rnd.choice(tt + [bytes([rnd.randrange(256)]), b' ', b'\n', b'\x00']) for _ in range(rnd.randint(1, 40))))
    # long and deep
    big = 200000 if q else 1000000
    unit = rnd.choice(tt)
    outs.append((unit + b' ') * (big // 4)); outs.append(unit * big)
    seen = set(); uniq = []
    for d in outs:
        if d not in seen: seen.add(d); uniq.append(d)
    return uniq

def grammars_for(tier, rnd):
    q = tier == 'quick'
    gs = []
    for g in gg.core_grammars():
        if ref_lr1.build(g).lr1: gs.append(g)
    gs = gs[:24] if not q else gs[:10]
    for g in list(gs[:6 if q else 16]):
        gs.append(gg.decorate(g, rnd, strings=0.5, typed=0.5))
    for ts in lxc.fixed_termsets()[: (8 if q else 23)]:
        tg = lxc.token_grammar(ts, 'tokens')
        gs.append(tg)
    for g in gg.err_core()[: (3 if q else 8)]: gs.append(g)
    # symbols and rules declared in another order than they are used (root not first, rules of one nonterminal apart): every internal
    # index mapping (declared order, sorted order) is then a real permutation; plus random LR(1) grammars, which list rules in any order
    multi = [g for g in gg.core_grammars() if len(g.nts) >= 2 and ref_lr1.build(g).lr1]
    rnd.shuffle(multi)
    for g in multi[: (4 if q else 16)]: gs.append(gg.shuffle_symbols(g, rnd, extras=False))
    st = gg.grammar_stream(rnd, want_lr1=1.0)
    for _ in range(4 if q else 24): gs.append(next(st)[0])
    for g in gg.core_grammars()[:(4 if q else 12)]:
        if ref_lr1.build(g).lr1: gs.append(gg.to_custom_lexer(g, rnd))
    deep = [simple('S->( S ) | a'), simple('L->a L | eps'), simple('L->L a | eps'), simple('E->T + E | T\nT->i | ( E )')]
    for g in deep: g.note = 'deep'
    return gs, deep

def worker(spec):
    try:
        return _worker(spec)
    except common.BuildError as e:
        return {'counts': {}, 'viol': [(['site:parse@compile'], 'documented grammars do not compile in the %s build: %s' % (spec.get('flavour'), e.diag[:600]), {})], 'samples': [], 'distinct': [], 'incon': []}
    except Exception:
        return {'counts': {}, 'viol': [], 'samples': [], 'distinct': [], 'incon': ['safety worker: ' + traceback.format_exc()[-1500:]]}

SAN_RE = re.compile(r'(ERROR: AddressSanitizer[^\n]*|runtime error:[^\n]*|ERROR: LeakSanitizer[^\n]*|SUMMARY: [A-Za-z]*Sanitizer[^\n]*|Assertion[^\n]*failed[^\n]*|CVECTOR-VIOLATION[^\n]*|terminate called[^\n]*)')

def _worker(spec):
    rnd = random.Random(spec['seed'])
    gs = [Grammar.from_json(j) for j in spec['grammars']]
    flavour = spec['flavour']; modes = spec['modes']
    out = {'counts': collections.Counter(), 'viol': [], 'samples': [], 'distinct': [], 'incon': []}
    C = out['counts']
    exe, hook_ok = eg.build_tu(eg.emit_tu(gs), flavour, extra=eg.mode_defines(modes))
    if 'explicit_inputs' in spec: inputs = [[bytes.fromhex(h) for h in lst] for lst in spec['explicit_inputs']]
    else: inputs = [hostile_inputs(g, rnd, spec['tier']) for g in gs]
    jobs = []
    for gi in range(len(gs)):
        for idx, d in enumerate(inputs[gi]):
            for m in modes:
                if m == 10 and len(d) > 20000: continue      # the verbose trace of a 10^5..10^6 token input is gigabytes of text for the monitor process
                jobs.append((gi, idx, m, d))
    remaining = list(jobs); restarts = 0
    allrecs = []
    env = {'ASAN_OPTIONS': 'abort_on_error=0:detect_leaks=1:halt_on_error=1:allocator_may_return_null=1:detect_stack_use_after_return=0', 'UBSAN_OPTIONS': 'print_stacktrace=1:halt_on_error=1'}
    while remaining and restarts < 4:
        rc, recs, _, meta, err = eg.run_jobs(exe, remaining, timeout=spec.get('timeout', 900), env=env)
        allrecs += recs
        done = {(r.gi, r.idx, r.mode) for r in recs}
        if rc == 0 and meta['end']: break
        first = next((j for j in remaining if (j[0], j[1], j[2]) not in done), None)
        if first is None:
            # all cases ran, the failure came at exit (e.g. leak report)
            sig = SAN_RE.findall(err)
            out['viol'].append((['site:parse@exit'], 'process failed after all cases rc=%s: %s' % (rc, ' | '.join(sig[:3]) or err[-300:]), {'stderr': err[-1500:]})); break
        g = gs[first[0]]
        if meta.get('timeout'):
            # the watchdog covers the whole job list and the machine may be loaded: the case that was running is tried once more on its own, with a
            # limit that depends on its size; only a case that does not finish alone counts as non-termination
            alone = 120 + len(first[3]) // 2000
            rc1, recs1, _, meta1, err1 = eg.run_jobs(exe, [first], timeout=alone, env=env)
            if rc1 == 0 and meta1['end'] and recs1:
                C['watchdog_expired_on_the_job_list_case_finished_alone'] += 1
                allrecs += recs1
                remaining = [j for j in remaining if (j[0], j[1], j[2]) not in done and j is not first]
                watchdogs = locals().get('watchdogs', 0) + 1
                if watchdogs > 6: out['incon'].append('the job list keeps running into the watchdog (loaded machine?)'); break
                continue
            rc, meta, err = rc1, meta1, err1
        sig = SAN_RE.findall(err) + meta['cvec']
        kind = 'hang (did not finish alone within %ds)' % (120 + len(first[3]) // 2000) if meta.get('timeout') else 'abort rc=%s' % rc
        d = first[3]
        shown = d if len(d) <= 80 else d[:40] + b'...(%d bytes)' % len(d)
        out['viol'].append(([ 'input:' + common.sha(g.key(), d, str(first[2]))[:16] ], 'grammar %s input %r mode %d in the %s build: %s: %s' % (g.text(), shown, first[2], flavour, kind, ' | '.join(sig[:3]) or err[-300:]),
                            {'grammar': g.to_json(), 'input': d.hex() if len(d) < 5000 else d[:2000].hex(), 'input_len': len(d), 'mode': first[2], 'stderr': err[-2500:]}))
        remaining = [j for j in remaining if (j[0], j[1], j[2]) not in done and j is not first]
        restarts += 1
    for r in allrecs:
        C['evaluations'] += 1
        g = gs[r.gi]; d = inputs[r.gi][r.idx]
        if len(d) > 1: out['distinct'].append(common.sha(g.key(), d)[:12])
        C['bytes_parsed'] += len(d)
        if r.res == 1: C['accepted'] += 1
        elif r.res == 0: C['rejected'] += 1
        elif r.res == -1:
            out['viol'].append((['input:' + common.sha(g.key(), d, str(r.mode))[:16], 'site:parse@exception'], 'grammar %s input %r mode %d: parse threw %s' % (g.text(), d[:80], r.mode, r.extra[:100]),
                                {'grammar': g.to_json(), 'input': d[:4000].hex(), 'mode': r.mode}))
        if r.mode in (4, 10):
            C['dereferences_watched'] += max(0, r.cb[0])
            if r.cb[1] or r.cb[2] or r.cb[3]:
                out['viol'].append((['input:' + common.sha(g.key(), d, '4')[:16]], 'grammar %s input %r mode %d: the bounds-monitoring buffer saw %d reads outside [begin,end), %d out-of-range iterators, %d bad views (%s)' % (
                    g.text(), d[:80], r.mode, r.cb[1], r.cb[2], r.cb[3], r.extra[:80]), {'grammar': g.to_json(), 'input': d[:4000].hex(), 'mode': r.mode}))
        if r.objs_alive != 0:
            out['viol'].append((['input:' + common.sha(g.key(), d, str(r.mode))[:16]], 'grammar %s input %r: %d tracked objects alive after the parse' % (g.text(), d[:80], r.objs_alive), {'grammar': g.to_json(), 'input': d[:4000].hex()}))
    if gs and not out['samples']:
        out['samples'].append({'grammar': gs[0].text(), 'inputs': len(inputs[0]), 'longest_input_bytes': max(len(d) for d in inputs[0]), 'build': flavour, 'modes': modes})
    return out

# ---------------------------------------------------------------- standalone regex matcher on arbitrary strings
def regex_worker(args):
    try:
        seed, n, flavour = args
        rnd = random.Random(seed)
        out = {'counts': collections.Counter(), 'viol': [], 'samples': [], 'distinct': [], 'incon': []}
        C = out['counts']
        exe = rxc.harness_exe(flavour)
        pats = rxc.gen_patterns(rnd, n, max_positions=40)
        qs = []
        for ast, t in pats:
            alpha = sorted({b for s_ in rr.Glushkov(ast).sets for b in list(s_)[:3]} | {0, 0xff, 0x61})
            for _ in range(6):
                k = rnd.random()
                if k < 0.5: s_ = rr.sample_string(ast, rnd)
                else: s_ = bytes(rnd.choice(alpha) for _ in range(rnd.randint(0, 12)))
                if rnd.random() < 0.3 and s_: s_ = s_[:rnd.randrange(len(s_))]
                qs.append((t, s_))
            qs.append((t, b''))
        ans, meta = rxc.match_queries(exe, qs)
        if meta['rc'] != 0:
            k = next((i for i, a in enumerate(ans) if a is None), None)
            out['viol'].append((['site:regex::dfa_match@crash'], 'regex matcher aborted rc=%s on pattern %r string %r: %s' % (meta['rc'], qs[k][0] if k is not None else None, qs[k][1] if k is not None else None,
                                ' | '.join(SAN_RE.findall(meta['err'])[:3]) or meta['err'][-300:]), {'stderr': meta['err'][-1500:]}))
        for (t, s_), a in zip(qs, ans):
            if a is None or a.get('status') != 'ok': continue
            C['evaluations'] += 1; C['match_calls'] += 1; C['dereferences_watched'] += a['cb'][0]
            out['distinct'].append(common.sha(t, s_)[:12])
            if a['cb'][1] or a['cb'][2] or a['cb'][3]:
                out['viol'].append((['input:' + common.sha('regex', t, s_)[:16]], 'pattern %r string %r: matcher read outside the buffer (oob_deref=%d oob_form=%d bad_view=%d)' % (t, s_, a['cb'][1], a['cb'][2], a['cb'][3]),
                                    {'pattern_hex': t.hex(), 'string_hex': s_.hex()}))
        return out
    except Exception:
        return {'counts': {}, 'viol': [], 'samples': [], 'distinct': [], 'incon': ['regex safety worker: ' + traceback.format_exc()[-1200:]]}


# ---------------------------------------------------------------- valgrind memcheck on a plain build (uninitialised values, thorough tier)
def valgrind_worker(spec):
    out = {'counts': collections.Counter(), 'viol': [], 'samples': [], 'distinct': [], 'incon': []}
    C = out['counts']
    try:
        import shutil, tempfile
        if not shutil.which('valgrind'):
            out['incon'].append('valgrind not installed'); return out
        rnd = random.Random(spec['seed'])
        gs = [Grammar.from_json(j) for j in spec['grammars']]
        exe, hook_ok = eg.build_tu(eg.emit_tu(gs), 'gxx', extra=eg.mode_defines([0, 1, 3, 4]) + ['-g'])
        jobs = [('D', gi) for gi in range(len(gs))]
        for gi, g in enumerate(gs):
            ins = [d for d in hostile_inputs(g, rnd, 'quick') if len(d) <= 200]
            rnd.shuffle(ins)
            for idx, d in enumerate(ins[: spec['n_inputs']]):
                for m in (0, 1, 3, 4): jobs.append((gi, idx, m, d))
        lines = []
        for j in jobs:
            lines.append('D %d' % j[1] if j[0] == 'D' else '%d %d %d %s' % (j[0], j[1], j[2], eg.hexin(j[3])))
        d = os.path.join(common.WORK, 'jobs'); os.makedirs(d, exist_ok=True)
        fd, path = tempfile.mkstemp(prefix='vg', dir=d)
        with os.fdopen(fd, 'w') as f: f.write('\n'.join(lines) + '\n')
        try:
            import subprocess
            r = subprocess.run(['valgrind', '--error-exitcode=99', '--track-origins=yes', '--num-callers=12', '-q', exe, path], capture_output=True, timeout=3000)
        finally:
            os.unlink(path)
        err = r.stderr.decode('latin-1', 'replace')
        nrec = r.stdout.count(b'\nO ') + (1 if r.stdout.startswith(b'O ') else 0)
        C['evaluations'] += nrec; C['executions_under_memcheck'] += nrec
        blocks = re.findall(r'==\d+== (Conditional jump[^\n]*|Use of uninitialised[^\n]*|Invalid (?:read|write)[^\n]*|Syscall param[^\n]*)(?:\n==\d+==[^\n]*){0,8}', err)
        if r.returncode == 99 or blocks:
            out['viol'].append((['site:memcheck@report'], 'valgrind memcheck reports on the plain build: %s ... %s' % (collections.Counter(blocks).most_common(3), err[:800]), {'stderr': err[:4000], 'grammars': spec['grammars']}))
        elif r.returncode != 0 or b'END' not in r.stdout:
            out['incon'].append('valgrind run failed rc=%s: %s' % (r.returncode, err[-300:]))
        out['samples'].append({'memcheck_cases': nrec, 'grammars': [g.text() for g in gs[:2]]})
    except subprocess.TimeoutExpired:
        out['incon'].append('valgrind watchdog expired')
    except common.BuildError as e:
        out['incon'].append('valgrind build: ' + e.diag[:400])
    except Exception:
        out['incon'].append('valgrind worker: ' + traceback.format_exc()[-1200:])
    return out
