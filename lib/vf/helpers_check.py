"""C19: complete run-time enumeration of the helper functors over arities 1..9, all positions / position pairs and
value categories, with tracked arguments (addresses, ids, copy/move counters)."""
import collections
from . import common

PRE = r'''
#include "vf_harness.hpp"
#include <vector>
using namespace ctpg::ftors;
using vf::S;
struct Wrap { long from; int how; Wrap() : from(0), how(0) {}
  Wrap(const vf::V& v) : from(v.id), how(1) {} Wrap(vf::V&& v) : from(v.id), how(2) { vf::V t(std::move(v)); }
  Wrap(vf::MV&& v) : from(v.id), how(3) { vf::MV t(std::move(v)); } };
// NX = false: a container whose move constructor may throw (hand-written lists, std::deque-like types)
// an element type from a namespace with list-building comma sugar: operator, is found by argument-dependent lookup wherever an element meets a comma
namespace dsl { struct CE { long id; explicit CE(long i) : id(i) {} }; template<class T> std::vector<CE> operator,(CE&, T&&) { return std::vector<CE>{}; } template<class T> std::vector<CE> operator,(CE&&, T&&) { return std::vector<CE>{}; } }
// a type with an initializer-list constructor and another one-argument constructor: construct<T> is documented (and implemented) as T{value}
struct IL { int how; long v; IL(std::initializer_list<long> l) : how(1), v(l.size() ? *l.begin() : -1) {} explicit IL(long n) : how(2), v(n) {} };
template<class T, bool NX = true> struct Cont { std::vector<T> items; static inline long copies = 0; long tag;
  explicit Cont(long t) : tag(t) {} Cont(const Cont& o) : items(o.items), tag(o.tag) { ++copies; } Cont(Cont&& o) noexcept(NX) : items(std::move(o.items)), tag(o.tag) { o.tag = -o.tag; }
  void push_back(const T& v) { items.push_back(v); } void emplace_back(T&& v) { items.emplace_back(std::move(v)); } };
static void begin() { S.reset(); S.copies = 0; S.moves = 0; Cont<vf::V>::copies = 0; Cont<vf::MV>::copies = 0; Cont<vf::V, false>::copies = 0; }
#define REP(name, n, k, c, cat, ok) std::printf("H %s %d %d %d %s %d %ld %ld", name, n, k, c, cat, int(ok), S.copies, S.moves)
int main() {
'''

def emit_chunks():
    chunks = []
    for n in range(1, 10):
        blocks, expect = emit(n)
        # split large arities further
        per = 60
        for i in range(0, len(blocks), per):
            chunks.append((PRE + '\n'.join(blocks[i:i + per]) + '\nstd::printf("END %ld\\n", S.objs_alive); return 0; }\n', expect[i:i + per]))
    return chunks

def emit(n):
    o = []; expect = []
    def decl(n, ty, skip=()):
        return ' '.join('%s a%d(%s::raw{}, %dL);' % (ty, i, ty, 100 + i) for i in range(1, n + 1) if i not in skip)
    def ids(n, skip=()):
        return ' '.join('std::printf(" %%ld", a%d.id);' % i if i not in skip else 'std::printf(" c");' for i in range(1, n + 1))
    if True:
        for k in range(1, n + 1):
            for cat, ty in (('lv', 'vf::V'), ('rv', 'vf::V'), ('mo', 'vf::MV')):
                args = ', '.join(('a%d' % i) if cat == 'lv' else ('std::move(a%d)' % i) for i in range(1, n + 1))
                # _eK
                o.append('{ begin(); %s auto&& r = _e%d(%s); REP("e", %d, %d, 0, "%s", (&r == &a%d) && r.id == %d); %s std::printf("\\n"); }' % (
                    decl(n, ty), k, args, n, k, cat, k, 100 + k, ids(n)))
                expect.append(('e', n, k, 0, cat))
                # construct<Wrap, k>
                if cat != 'lv' or True:
                    o.append('{ begin(); %s Wrap w = construct<Wrap, %d>{}(%s); REP("construct", %d, %d, 0, "%s", w.from == %d && w.how == %d); %s std::printf("\\n"); }' % (
                        decl(n, ty), k, args, n, k, cat, 100 + k, {'lv': 1, 'rv': 2, 'mo': 3}[cat], ids(n)))
                    expect.append(('construct', n, k, 0, cat))
        # construct<T, k> is brace construction: a type with an initializer-list constructor gets the value as its single element
        for k in range(1, n + 1):
            largs = ', '.join('%dL' % (500 + i) for i in range(1, n + 1))
            o.append('{ begin(); IL w = construct<IL, %d>{}(%s); REP("constructil", %d, %d, 0, "rv", (w.how == 1 && w.v == %d)); %s std::printf("\\n"); }' % (k, largs, n, k, 500 + k, ' '.join('std::printf(" c");' for _ in range(n))))
            expect.append(('constructil', n, k, 0, 'rv'))
        # emplace_back with a standard container (emplace_back returns a reference there) and an element type that brings its own operator,
        if n in (2, 3, 5):
            for (c, a) in ((1, 2), (2, 1), (n, 1)):
                if c == a or c > n: continue
                decls = ' '.join('long z%d = %d;' % (i, i) for i in range(1, n + 1) if i not in (c, a))
                args = ', '.join('std::move(cc)' if i == c else ('std::move(el)' if i == a else 'z%d' % i) for i in range(1, n + 1))
                o.append('{ begin(); std::vector<dsl::CE> cc; dsl::CE el(77); %s auto&& r = emplace_back<%d, %d>{}(%s); REP("ebcomma", %d, %d, %d, "rv", ((const void*)&r == (const void*)&cc && cc.size() == 1 && cc[0].id == 77)); %s std::printf("\\n"); }' % (
                    decls, c, a, args, n, a, c, ' '.join('std::printf(" c");' for _ in range(n))))
                expect.append(('ebcomma', n, a, c, 'rv'))
        # val / create ignore all arguments
        for cat, ty in (('rv', 'vf::V'), ('mo', 'vf::MV')):
            args = ', '.join('std::move(a%d)' % i for i in range(1, n + 1))
            o.append('{ begin(); %s long v = val(4242L)(%s); REP("val", %d, 0, 0, "%s", v == 4242L); %s std::printf("\\n"); }' % (decl(n, ty), args, n, cat, ids(n)))
            expect.append(('val', n, 0, 0, cat))
            o.append('{ begin(); %s Wrap w = create<Wrap>{}(%s); REP("create", %d, 0, 0, "%s", w.from == 0 && w.how == 0); %s std::printf("\\n"); }' % (decl(n, ty), args, n, cat, ids(n)))
            expect.append(('create', n, 0, 0, cat))
        for c in range(1, n + 1):
            for a in range(1, n + 1):
                if a == c: continue
                for cat, ty in (('rv', 'vf::V'), ('mo', 'vf::MV')):
                    for fn in ('push_back', 'emplace_back'):
                        if fn == 'push_back' and cat == 'mo': continue
                        args = ', '.join(('std::move(cc)' if i == c else 'std::move(a%d)' % i) for i in range(1, n + 1))
                        # the result is consumed the way the parser does it: the left-side value is constructed from what the functor returns
                        cty = ty if (cat == 'mo' or (c + a + n) % 2) else ty + ', false'
                        o.append('{ begin(); %s Cont<%s> cc(7); auto&& r = %s<%d, %d>{}(%s); '
                                 'bool ok1 = (&r == &cc) && cc.tag == 7 && cc.items.size() == 1 && (cc.items[0].id == %d) && Cont<%s>::copies == 0; '
                                 'Cont<%s> taken(std::forward<decltype(r)>(r)); '
                                 'REP("%s", %d, %d, %d, "%s", (ok1 && Cont<%s>::copies == 0 && taken.items.size() == 1 && taken.tag == 7)); %s std::printf("\\n"); }' % (
                                     decl(n, ty, skip=(c,)), cty, fn, c, a, args, 100 + a, cty, cty, fn, n, a, c, cat, cty, ids(n, skip=(c,))))
                        expect.append((fn, n, a, c, cat))
    return o, expect

def run_chunk(args):
    src, expect, flavour = args
    try:
        exe = common.build(src, flavour, name='helpers')
    except common.BuildError as e:
        return ('compile', e.diag[:800], [])
    rc, so, se, to = common.run(exe, timeout=300)
    lines = [l.split() for l in so.decode('latin-1').split('\n') if l.startswith('H ')]
    if rc != 0 or b'END 0' not in so:
        return ('crash', 'rc=%s after %d cases: %s %s' % (rc, len(lines), so[-200:], se[-600:].decode('latin-1', 'replace')), lines)
    return ('ok', '', lines)

def run(flavour='asan0'):
    chunks = emit_chunks()
    expect = [e for _, ex in chunks for e in ex]
    out = {'counts': collections.Counter(), 'viol': [], 'samples': [], 'distinct': [], 'incon': []}
    C = out['counts']
    res = common.pmap(run_chunk, [(src, ex, flavour) for src, ex in chunks])
    lines = []
    for st, msg, ls in res:
        lines += ls
        if st == 'compile': out['viol'].append((['site:ftors@compile'], 'documented uses of the helper functors do not compile: ' + msg, {}))
        elif st == 'crash': out['viol'].append((['site:ftors@crash'], 'helper functor enumeration aborted ' + msg, {}))
    got = {}
    for p in lines:
        got[(p[1], int(p[2]), int(p[3]), int(p[4]), p[5])] = (int(p[6]), int(p[7]), int(p[8]), p[9:])
    for case in expect:
        name, n, k, c, cat = case
        r = got.get(case)
        if r is None:
            out['incon'].append('no record for %s' % (case,)); continue
        C['evaluations'] += 1; out['distinct'].append('%s-%d-%d-%d-%s' % case)
        ok, copies, moves, ids = r
        # expected side effects: which arguments may have been moved from / how many copies and moves
        exp_copies = 0; exp_moved = set()
        if name == 'construct':
            if cat == 'lv': exp_copies = 0      # Wrap(const V&) reads the id only
            else: exp_moved = {k}
        elif name == 'push_back': exp_copies = 1
        elif name == 'emplace_back': exp_moved = {k}
        elif name == 'ebcomma': pass
        problems = []
        if not ok: problems.append('wrong value/identity returned')
        if copies != exp_copies: problems.append('%d copies of arguments (expected %d)' % (copies, exp_copies))
        for i, v in enumerate(ids, 1):
            if v == 'c': continue
            moved = int(v) < 0
            if moved != (i in exp_moved): problems.append('argument %d %s' % (i, 'was moved from' if moved else 'was not consumed'))
            elif abs(int(v)) != 100 + i: problems.append('argument %d changed identity' % i)
        if problems:
            desc = {'e': '_e%d' % k, 'construct': 'construct<T,%d>' % k, 'constructil': 'construct<T,%d> for a T with an initializer-list constructor (T{value})' % k, 'ebcomma': 'emplace_back<%d,%d> on std::vector of an element type with an overloaded comma operator' % (c, k), 'push_back': 'push_back<%d,%d>' % (c, k), 'emplace_back': 'emplace_back<%d,%d>' % (c, k), 'val': 'val', 'create': 'create<T>'}[name]
            out['viol'].append((['input:%s-%d-%d-%d-%s' % case], '%s with %d %s arguments: %s' % (desc, n, {'lv': 'lvalue', 'rv': 'rvalue', 'mo': 'move-only'}[cat], '; '.join(problems)), {'case': case, 'record': r}))
    out['samples'] = [{'case': 'push_back<3,1> with 4 rvalue arguments', 'record': got.get(('push_back', 4, 1, 3, 'rv'))}, {'case': '_e9 with 9 move-only arguments', 'record': got.get(('e', 9, 9, 0, 'mo'))}]
    return out, len(expect)
