"""C07: the same (grammar, input) parsed during constant evaluation by g++ and clang++ and at run time through every
buffer kind, with the parser object constructed at compile time and at run time; all results must agree."""
import random, collections, traceback, re
from . import common, ref_lr1, gen_grammar as gg, emit_grammar as eg, model
from .capacity_check import stack_finding_applies
from .grammar import Grammar, Rule, Term

PRE = r'''
#include "vf_harness.hpp"
using namespace ctpg; using namespace ctpg::buffers;
namespace vf {
constexpr long NONE = -987654321L;
template<class T> constexpr long cval(const T& v)
{
    if constexpr (std::is_same_v<T, ctpg::term_value<char>>) return long((unsigned char)v.get_value()) + 1000L * v.get_column() + 100000L * v.get_line();
    else if constexpr (std::is_same_v<T, ctpg::term_value<std::string_view>>) return long(v.get_value().size()) * 7 + long((unsigned char)v.get_value()[0]) + 1000L * v.get_column() + 100000L * v.get_line();
    else if constexpr (std::is_same_v<T, ctpg::no_type>) return 7;
    else if constexpr (std::is_same_v<T, ctpg::term_value<long>>) return v.get_value() + 1000L * v.get_column() + 100000L * v.get_line();
    else return long(v);
}
template<int R> struct H { template<class... A> constexpr long operator()(const A&... a) const { long h = R * 1000003L + 17; ((h = (h * 31 + cval(a)) % 2147483647L), ...); return h; } };
struct CCtx { long k; };
struct TTc { constexpr long operator()(std::string_view sv) const { return long(sv.size()) * 13 + (sv.size() ? long((unsigned char)sv[0]) : 0); } };
template<int R> struct HX { template<class C, class... A> constexpr long operator()(const C& c, const A&... a) const { long h = R * 1000003L + c.k; ((h = (h * 31 + cval(a)) % 2147483647L), ...); return h; } };
template<class O> constexpr long ov(const O& o) { return o.has_value() ? *o : NONE; }
// a string_buffer that was moved and then copied after its construction (short texts live inside the std::string object)
inline ctpg::buffers::string_buffer travelled(const std::string& s) { ctpg::buffers::string_buffer a{ std::string(s) }; ctpg::buffers::string_buffer b(std::move(a)); ctpg::buffers::string_buffer c(b); return c; }
inline std::string last_exc;
template<bool ctx, class P, class B> long rt_parse(const P& p, const B& b, int opt)
{
    try {
        std::ostringstream ss; parse_options o; if (opt & 1) o.set_skip_whitespace(false); if (opt & 2) o.set_skip_newline(false); if (opt & 4) o.set_verbose();
        if constexpr (ctx) { const CCtx c{ 5 }; return ov(p.context_parse(c, o, b, ss)); }
        else return ov(p.parse(o, b, ss));
    } catch (const std::exception& e) { last_exc = e.what(); return -111; }
}
}
'''

def emit_one(g, gi, inputs, ctx):
    """inputs: list of (bytes, opt)"""
    o = ['namespace g%d {' % gi]
    for i, n in enumerate(g.nts): o.append('constexpr nterm<long> n%d(%s);' % (i, eg.cstr(n)))
    tref = []
    for j, t in enumerate(g.terms):
        plain = (t.prec == 0 and t.assoc == 'n')
        if t.kind == 'c':
            if plain: ref = eg.cchar(t.text)
            else: o.append('constexpr char_term t%d(%s, %d, %s);' % (j, eg.cchar(t.text), t.prec, eg.ASSOC[t.assoc])); ref = 't%d' % j
        elif t.kind == 's':
            if plain: ref = eg.cstr(t.text)
            else: o.append('constexpr string_term t%d(%s, %d, %s);' % (j, eg.cstr(t.text), t.prec, eg.ASSOC[t.assoc])); ref = 't%d' % j
        else:
            o.append('constexpr char pat%d[] = %s;' % (j, eg.cstr(t.text)))
            o.append('constexpr regex_term<pat%d> t%d(%s, %d, %s);' % (j, j, eg.cstr(t.name or ('T%d' % j)), t.prec, eg.ASSOC[t.assoc])); ref = 't%d' % j
        if t.typed:
            if ref[0] in '\'"':
                o.append('constexpr %s t%d(%s);' % ('char_term' if t.kind == 'c' else 'string_term', j, ref)); ref = 't%d' % j
            o.append('constexpr typed_term tt%d(%s, vf::TTc{});' % (j, ref)); ref = 'tt%d' % j
        tref.append(ref)
    rules = []
    for ri, r in enumerate(g.rules):
        args = []
        for s in r.rhs:
            if s[0] == 'n': args.append('n%d' % s[1])
            elif s[0] == 'e': args.append('error')
            else: args.append(tref[s[1]])
        txt = 'n%d(%s)' % (r.lhs, ', '.join(args))
        if r.prec: txt += '[%d]' % r.prec
        txt += (' >>= vf::HX<%d>{}' % ri) if (ctx and ri % 2 == 0) else (' >= vf::H<%d>{}' % ri)
        rules.append(txt)
    decl = 'parser %%s(n%d, terms(%s), nterms(%s), rules(\n  %s\n));' % (g.root, ', '.join(tref), ', '.join('n%d' % i for i in range(len(g.nts))), ',\n  '.join(rules))
    o.append('constexpr ' + decl % 'p')
    o.append('inline const auto& rt() { static const auto* q = new ' + (decl % 'q').replace('parser q(', 'parser(', 1).rstrip(';') + '; return *q; }')     # really constructed at run time
    lines = []
    for k, (d, opt) in enumerate(inputs):
        lit = eg.cstr(d.decode('latin-1'))
        call = ('context_parse(vf::CCtx{ 5 }, ' if ctx else 'parse(') + 'parse_options{}%s%s%s, cstring_buffer(%s), ns)' % ('.set_skip_whitespace(false)' if opt & 1 else '', '.set_skip_newline(false)' if opt & 2 else '', '.set_verbose()' if opt & 4 else '', lit)
        if ctx: call = call.replace('vf::CCtx{ 5 }', 'cc')
        lines.append('constexpr long c%d = vf::ov([]{ utils::no_stream ns; %sreturn p.%s; }()); /*CASE %d:%d*/' % (k, 'const vf::CCtx cc{ 5 }; ' if ctx else '', call, gi, k))
    o += lines
    o.append('inline void run() {')
    for k, (d, opt) in enumerate(inputs):
        lit = eg.cstr(d.decode('latin-1'))
        o.append('  { std::string s(%s, %d); vf::checked_buffer cb{ std::string_view(s) }; std::unique_ptr<char[]> m(new char[s.size() + 1]); std::memcpy(m.get(), s.data(), s.size());' % (lit, len(d)))
        o.append('    long v[8]; int vi = 0; vf::last_exc.clear();')
        for pobj in ('p', 'rt()'):
            cx = 'true' if ctx else 'false'
            o.append(('    v[vi++] = vf::rt_parse<%s>(%s, cstring_buffer(%s), %d); v[vi++] = vf::rt_parse<%s>(%s, ' + ('string_buffer(std::string(s))' if pobj == 'p' else 'vf::travelled(s)') + ', %d); v[vi++] = vf::rt_parse<%s>(%s, string_view_buffer(std::string_view(m.get(), s.size())), %d); v[vi++] = vf::rt_parse<%s>(%s, cb, %d);') % (
                cx, pobj, lit, opt, cx, pobj, opt, cx, pobj, opt, cx, pobj, opt))
        o.append('    if (!vf::last_exc.empty()) std::printf("X %s\\n", vf::last_exc.c_str());')
        o.append('    std::printf("C %d %d %%ld %%ld %%ld %%ld %%ld %%ld %%ld %%ld %%ld %%ld %%ld %%ld\\n", c%d, v[0], v[1], v[2], v[3], v[4], v[5], v[6], v[7], cb.oob_deref, cb.oob_form, cb.bad_view); }' % (gi, k, k))
    o.append('  { std::ostringstream a, b; p.write_diag_str(a); rt().write_diag_str(b); std::printf("T %d %%d\\n", int(a.str() == b.str())); }' % gi)
    o.append('}\n}')
    return '\n'.join(o)

def emit_tu(items):
    o = [PRE]
    for gi, (g, inputs, ctx) in enumerate(items): o.append(emit_one(g, gi, inputs, ctx))
    o.append('int main() { ' + ' '.join('g%d::run();' % gi for gi in range(len(items))) + ' std::printf("END\\n"); return 0; }')
    return '\n'.join(o) + '\n'

STACK_SITE = 'site:context_parse/cvector-stack@cstring_buffer'

def _short(b):
    return repr(b) if len(b) <= 80 else '%r...(%d bytes)' % (b[:40], len(b))

def worker(spec):
    try:
        return _worker(spec)
    except Exception:
        return {'counts': {}, 'viol': [], 'samples': [], 'distinct': [], 'incon': ['consteval worker: ' + traceback.format_exc()[-1500:]]}

def pick_inputs(g, tb, rnd, n):
    seqs = gg.inputs_for(g, rnd, n_exh_cap=60, exh_len=4, n_rand=20, n_mut=30, long_targets=(8, 16))
    datas = []
    for s in seqs:
        if len(s) > 24: continue
        from .pipeline import tok_bytes
        d = tok_bytes(g, s, rnd, ws=0.15, wschars=b'  \t\n')
        if len(d) <= 48: datas.append(d)
    pos = [d for d in datas if model.expect(g, tb, d).ok]
    neg = [d for d in datas if not model.expect(g, tb, d).ok]
    rnd.shuffle(pos); rnd.shuffle(neg)
    out = pos[: n // 2] + neg[: n // 3]
    # a NUL byte inside a lexeme (terms like [^"]* accept it): the text after it must count for every buffer kind
    nul = []
    if any(t.kind == 'r' and ('[^' in t.text or '.' in t.text) for t in g.terms):
        for base in pos[:12]:
            for i in range(1, len(base)):
                d = base[:i] + b'\x00' + base[i:]
                if len(nul) < 3 and d not in nul and model.expect(g, tb, d).ok: nul.append(d); break
    out += nul
    alph = ''.join(t.text for t in g.terms if t.kind != 'r') or 'a'
    for _ in range(max(2, n - len(out))):
        base = rnd.choice(pos) if pos else b''
        i = rnd.randrange(len(base) + 1)
        out.append(base[:i] + bytes([rnd.choice(b'?#\x00\x00\x01\x7f\xff' + alph.encode('latin-1'))]) + base[i:])      # lexically wrong or mutated
    uniq = list(dict.fromkeys(out))
    return [(d, rnd.choice([0, 0, 0, 1, 2, 3, 4, 4, 6])) for d in uniq]      # bit 0: whitespace not skipped, bit 1: newlines not skipped, bit 2: verbose (pointless during constant evaluation, but legal)

def _worker(spec):
    rnd = random.Random(spec['seed'])
    gs = [Grammar.from_json(j) for j in spec['grammars']]
    out = {'counts': collections.Counter(), 'viol': [], 'samples': [], 'distinct': [], 'incon': []}
    C = out['counts']
    items = []
    for gi, g in enumerate(gs):
        tb = ref_lr1.build(g)
        if 'explicit_inputs' in spec: items.append((g, [(bytes.fromhex(h), 0) for h in spec['explicit_inputs'][gi]], False))
        else: items.append((g, pick_inputs(g, tb, rnd, spec['n_inputs']), gi % 3 == 2))
    src = emit_tu(items)
    lines = src.split('\n')
    results = {}
    for fl in ('gxx0', 'clang'):
        cur = src; exe = None
        for attempt in range(6):
            try:
                # long literals: clang's default fold-expression nesting limit (256) is a compiler knob, not a library property
                exe = common.build(cur, fl, name='ct', extra=(['-fbracket-depth=8192'] if fl == 'clang' and spec.get('long_literals') else [])); break
            except common.BuildError as e:
                # map the diagnostics to a case through the line numbers of the CASE markers, report it, neutralise it and retry
                cl = cur.split('\n'); hit = None
                for m in re.finditer(r'ct\.cpp:(\d+)', e.diag):
                    ln = int(m.group(1)) - 1
                    if 0 <= ln < len(cl):
                        mm = re.search(r'/\*CASE (\d+):(\d+)\*/', cl[ln])
                        if mm and 'SKIPPED' not in cl[ln]: hit = (int(mm.group(1)), int(mm.group(2)), ln); break
                if hit:
                    g, inputs, ctx = items[hit[0]]; d, opt = inputs[hit[1]]
                    keys = ['input:' + common.sha(g.key(), d, str(opt))[:16]] + ([STACK_SITE] if 'capacity' in e.diag and stack_finding_applies(g, ref_lr1.build(g), d, opt) else [])
                    out['viol'].append((keys, 'grammar %s input %s options %d: parsing during constant evaluation is rejected by %s: %s' % (g.text(), _short(d), opt, fl, e.diag[:300]),
                                        {'grammar': g.to_json(), 'input': d.hex(), 'opt': opt, 'compiler': fl, 'diag': e.diag[:1500]}))
                    cl[hit[2]] = 'constexpr long c%d = -222; /*CASE %d:%d SKIPPED*/' % (hit[1], hit[0], hit[1])
                    cur = '\n'.join(cl)
                else:
                    out['viol'].append((['site:constant-evaluation@compile'], 'generated program with constexpr parsers does not compile with %s: %s' % (fl, e.diag[:500]), {'diag': e.diag[:2000], 'grammars': spec['grammars']}))
                    break
        if exe is None: continue
        rc, so, se, to = common.run(exe, timeout=300)
        text = so.decode('latin-1')
        if rc != 0 or 'END' not in text:
            out['viol'].append((['site:parse@crash'], 'program built by %s aborted rc=%s: %s' % (fl, rc, se.decode('latin-1', 'replace')[-400:]), {'grammars': spec['grammars']})); continue
        threw = None
        for ln in text.split('\n'):
            p = ln.split()
            if not p: continue
            if p[0] == 'X': threw = ln
            elif p[0] == 'C': results[(fl, int(p[1]), int(p[2]))] = ([int(x) for x in p[3:12]], [int(x) for x in p[12:15]], threw); threw = None
            elif p[0] == 'T':
                C['construction_modes_compared'] += 1
                if p[2] != '1':
                    g = items[int(p[1])][0]
                    out['viol'].append((['input:' + g.key()], 'grammar %s: the parser constructed at run time prints different diagnostics than the one constructed at compile time (%s)' % (g.text(), fl), {'grammar': g.to_json()}))
    for gi, (g, inputs, ctx) in enumerate(items):
        tb = ref_lr1.build(g)
        for k, (d, opt) in enumerate(inputs):
            C['evaluations'] += 1
            ex = model.expect(g, tb, d, skip_ws=not (opt & 1), skip_nl=not (opt & 2))
            kind = 'accepted' if ex.ok else ('lexically wrong' if ex.res.lexerr is not None else 'syntactically wrong')
            C['inputs_' + kind.replace(' ', '_')] += 1
            out['distinct'].append(common.sha(g.key(), d, str(opt))[:12])
            vals = []
            for fl in ('gxx0', 'clang'):
                r = results.get((fl, gi, k))
                if r is None: continue
                C['constant_evaluations_observed'] += 1; C['run_time_parses_observed'] += 8
                vals.append((fl, r))
            allv = set()
            for fl, (v, cb, threw) in vals: allv |= set(x for x in v if x != -222)
            keys = ['input:' + common.sha(g.key(), d, str(opt))[:16]]
            if any(threw for _, (_, _, threw) in vals) or -111 in allv:
                msg = next((threw for _, (_, _, threw) in vals if threw), '')
                if 'capacity' in (msg or '') and stack_finding_applies(g, tb, d, opt): keys.append(STACK_SITE)
                out['viol'].append((keys, 'grammar %s input %s options %d: a run-time parse threw (%s); results %s' % (g.text(), _short(d), opt, msg, vals[0][1][0] if vals else None), {'grammar': g.to_json(), 'input': d.hex(), 'opt': opt}))
            elif len(allv) > 1:
                out['viol'].append((keys, 'grammar %s input %r options %d (%s): results differ between constant evaluation / buffer kinds / construction modes / compilers: %s (order: constexpr; constexpr-built parser x {cstring,string,string_view,user}; run-time-built parser x same)'.replace('input %r', 'input %s') % (
                    g.text(), _short(d), opt, kind, [(fl, v) for fl, (v, cb, t) in vals]), {'grammar': g.to_json(), 'input': d.hex(), 'opt': opt}))
            elif vals and ((-987654321 not in allv) != ex.ok):
                C['acceptance_disagreements_left_to_C01'] += 1
            for fl, (v, cb, threw) in vals:
                if any(cb):
                    out['viol'].append((keys, 'grammar %s input %r: bounds-monitoring buffer flagged %s' % (g.text(), d, cb), {'grammar': g.to_json(), 'input': d.hex()}))
    if items:
        g, inputs, ctx = items[0]
        out['samples'].append({'grammar': g.text(), 'inputs': [(d.decode('latin-1'), o) for d, o in inputs[:5]], 'context_parse': ctx})
    return out
