"""C++ emitter for grammar translation units (public API only + the guarded dump hook) and the
runner that executes job files against them and parses the records back."""
import os, binascii, tempfile
from . import common
from .grammar import Grammar

VT = {'V': 'vf::V', 'W': 'vf::W', 'X': 'vf::XT', 'I': 'long', 'M': 'vf::MV', 'B': 'vf::Bag', 'N': 'no_type', 'T': 'vf::TD'}

def cchar(ch):
    o = ord(ch)
    if ch == "'": return "'\\''"
    if ch == '\\': return "'\\\\'"
    if 32 <= o < 127: return "'%s'" % ch
    return "'\\x%02x'" % o

def cstr(s):
    out = []
    for ch in s:
        o = ord(ch)
        if ch in '"\\': out.append('\\' + ch)
        elif 32 <= o < 127: out.append(ch)
        else: out.append('\\x%02x""' % o)      # "" stops the hex escape
    return '"' + ''.join(out) + '"'

ASSOC = {'n': 'associativity::no_assoc', 'l': 'associativity::ltor', 'r': 'associativity::rtol'}

def mode_defines(modes):
    mask = 0
    for m in modes:
        if m in (0, 1, 7, 8, 9, 12, 13, 14): mask |= 1
        elif m in (5, 6): mask |= 1 << 5
        elif m < 20: mask |= 1 << m
    d = ['-DVF_MODES=0x%xu' % mask]
    if any(m >= 20 for m in modes): d.append('-DVF_CTX_ANY')
    return d

def emit_one(g, gi, runtime_ctor=False, limits=None, extra_decl=''):
    o = ['namespace g%d {' % gi]
    for i, n in enumerate(g.nts):
        o.append('constexpr nterm<%s> n%d(%s);' % (VT[g.vtypes[i]], i, cstr(n)))
    tref = []
    for j, t in enumerate(g.terms):
        plain = (t.prec == 0 and t.assoc == 'n')
        if t.kind == 'c':
            if plain and not t.typed: ref = cchar(t.text)
            else:
                o.append('constexpr char_term t%d(%s, %d, %s);' % (j, cchar(t.text), t.prec, ASSOC[t.assoc])); ref = 't%d' % j
        elif t.kind == 'k':
            if t.typed == 'n': o.append('constexpr custom_term t%d(%s, create<no_type>{}, %d, %s);' % (j, cstr(t.display()), t.prec, ASSOC[t.assoc]))
            elif getattr(g, 'ttstate', False): o.append('constexpr custom_term t%d(%s, vf::TTS<%s>{%d}, %d, %s);' % (j, cstr(t.display()), VT[getattr(g, 'tvtype', 'V')], j, t.prec, ASSOC[t.assoc]))
            else: o.append('constexpr custom_term t%d(%s, vf::TT<%d, %s>{}, %d, %s);' % (j, cstr(t.display()), j, VT[getattr(g, 'tvtype', 'V')], t.prec, ASSOC[t.assoc]))
            ref = 't%d' % j
            tref.append(ref); continue
        elif t.kind == 's':
            if plain and not t.typed: ref = cstr(t.text)
            else:
                o.append('constexpr string_term t%d(%s, %d, %s);' % (j, cstr(t.text), t.prec, ASSOC[t.assoc])); ref = 't%d' % j
        else:
            o.append('constexpr char pat%d[] = %s;' % (j, cstr(t.text)))
            if t.name:
                o.append('constexpr regex_term<pat%d> t%d(%s, %d, %s);' % (j, j, cstr(t.name), t.prec, ASSOC[t.assoc]))
            else:
                o.append('constexpr regex_term<pat%d> t%d(%d, %s);' % (j, j, t.prec, ASSOC[t.assoc]))
            ref = 't%d' % j
        if t.typed:
            if ref[0] in '\'"':
                o.append('constexpr %s t%d(%s);' % ('char_term' if t.kind == 'c' else 'string_term', j, ref)); ref = 't%d' % j
            if t.typed == 'n': o.append('constexpr typed_term tt%d(%s, create<no_type>{});' % (j, ref))
            elif getattr(g, 'ttstate', False): o.append('constexpr typed_term tt%d(%s, vf::TTS<%s>{%d});' % (j, ref, VT[getattr(g, 'tvtype', 'V')], j))
            else: o.append('constexpr typed_term tt%d(%s, vf::TT<%d, %s>{});' % (j, ref, j, VT[getattr(g, 'tvtype', 'V')]))
            ref = 'tt%d' % j
        tref.append(ref)
    rules = []; locals_ = []
    is_ctx = False
    for ri, r in enumerate(g.rules):
        args = []
        for s in r.rhs:
            if s[0] == 'n': args.append('n%d' % s[1])
            elif s[0] == 'e': args.append('error')
            else: args.append(tref[s[1]])
        txt = 'n%d(%s)' % (r.lhs, ', '.join(args))
        if runtime_ctor and r.ftor != 'd' and (ri + gi) % 2 == 1:
            # a rule held in a named (non-const) object and decorated later: rb = n(..); ... rules(rb >= f, ...)
            if r.ftor == 'f' and g.vtypes[r.lhs] != 'N' and (ri // 2) % 2 == 0:
                # ... and one that already carries a contextual functor, which the later '>=' replaces by a plain one (the context must then not be passed)
                locals_.append('auto rb%d = %s >>= vf::X<%d, %s>{};' % (ri, txt, ri, VT[g.vtypes[r.lhs]]))
            else:
                locals_.append('auto rb%d = %s;' % (ri, txt))
            txt = 'rb%d' % ri
        # the explicit precedence may be written before or after the functor: n(..)[p] >= f   or   (n(..) >= f)[p]
        post = bool(r.prec) and r.ftor != 'd' and (ri + gi + len(g.rules)) % 2 == 1
        if r.prec and not post: txt += '[%d]' % r.prec
        vt = VT[g.vtypes[r.lhs]]
        if r.ftor == 'f' and g.vtypes[r.lhs] == 'N': txt += ' >= vf::RN<%d>{}' % ri
        elif r.ftor == 'f': txt += ' >= vf::R<%d, %s>{}' % (ri, vt)
        elif r.ftor == 'lr': txt += ' >= vf::RL<%d, %s>{}' % (ri, vt)
        elif r.ftor == 'st': txt += ' >= vf::%s<%d, %s>{}' % ('RS' if runtime_ctor else 'R', ri, vt)      # stateful functor objects only in run-time constructed parsers
        elif r.ftor == 'x' and g.vtypes[r.lhs] == 'N': txt += ' >>= vf::XN<%d>{}' % ri; is_ctx = True
        elif r.ftor == 'x': txt += ' >>= vf::X<%d, %s>{}' % (ri, vt); is_ctx = True
        elif r.ftor == 'd': pass
        elif r.ftor[0] == 'e' and r.ftor[1:].isdigit(): txt += ' >= _' + r.ftor
        elif r.ftor[0] == 'c' and r.ftor[1:] in VT: txt += ' >= vf::R<%d, %s>{}' % (ri, VT[r.ftor[1:]])
        elif r.ftor == 'nb': txt += ' >= create<vf::Bag>{}'
        elif r.ftor[:2] in ('pb', 'eb'): txt += ' >= %s<%s>{}' % ('push_back' if r.ftor[:2] == 'pb' else 'emplace_back', r.ftor[2:])
        else: txt += ' >= ' + r.ftor      # literal C++ functor expression (helper functors)
        if post: txt = '(%s)[%d]' % (txt, r.prec)
        rules.append(txt)
    if extra_decl: o.append(extra_decl)
    tail = ''
    ls = getattr(g, 'lexspec', None)
    if ls is not None:
        o.append('constexpr vf::lexspec spec = { { %s }, { %s } };' % (', '.join(str(x) for x in ls[0]), ', '.join(str(x) for x in ls[1])))
        tail = ', use_lexer<vf::ScriptLexer>{}'
    if limits:
        o.append('struct lim { static const size_t state_count_cap = %d; static const size_t max_sit_count_per_state_cap = %d; };' % limits)
        tail = (tail or ', use_generated_lexer{}') + ', lim{}'
    decl = 'parser p(n%d, terms(%s), nterms(%s), rules(\n  %s\n)%s);' % (
        g.root, ', '.join(tref), ', '.join('n%d' % i for i in range(len(g.nts))), ',\n  '.join(rules), tail)
    if runtime_ctor:
        # really constructed at run time: a static object with constant arguments would be constant-initialised by the compiler
        o.append('inline const auto& get() { static const auto* q = [] { ' + ' '.join(locals_) + ' return new ' + decl.replace('parser p(', 'parser(', 1).rstrip(';') + '; }(); return *q; }')
    else:
        o.append('constexpr ' + decl)
        o.append('inline const auto& get() { return p; }')
    o.append('constexpr bool is_ctx = %s;' % ('true' if is_ctx else 'false'))
    o.append('inline void select() { vf::cur_lexspec = %s; }' % ('&spec' if ls is not None else 'nullptr'))
    o.append('}')
    return '\n'.join(o)

def analyzer_bytes(g):
    """rough size of the LR(1) analyser that the parser constructor keeps in one stack frame (run-time construction needs it on the stack)"""
    tc = len(g.terms) + 2; nc = len(g.nts) + 1; rc = len(g.rules) + 1
    ml = max([1] + [len(r.rhs) for r in g.rules]); ss = ml + 1
    addr = rc * ss * tc
    cap = (sum(len(r.rhs) + 1 for r in g.rules)) * tc + 2
    icap = cap
    if getattr(g, 'limits', None): cap, icap = g.limits
    sv = icap * 4 + 8
    state = sv + addr // 8 + (tc + nc) * sv
    return cap * state + addr * sv

def emit_tu(grammars, runtime_ctor=(), limits=None):
    # run-time construction is only attempted where the analyser fits on a (raised) stack
    runtime_ctor = {gi for gi in runtime_ctor if gi < len(grammars) and analyzer_bytes(grammars[gi]) < 300 * 1024 * 1024} | {gi for gi, g in enumerate(grammars) if getattr(g, 'rt', False)}
    o = ['#include "vf_driver.hpp"', 'using namespace ctpg; using namespace ctpg::buffers; using namespace ctpg::ftors;']
    for gi, g in enumerate(grammars):
        o.append(emit_one(g, gi, runtime_ctor=(gi in runtime_ctor), limits=((limits or {}).get(gi) or getattr(g, 'limits', None))))
    o.append('static void dispatch(int gi, long idx, int mode, const std::string& in) {')
    o.append('  switch (gi) {')
    for gi in range(len(grammars)):
        o.append('  case %d: g%d::select(); if (idx < 0) vf::dump(g%d::get(), %d); else if constexpr (g%d::is_ctx) vf::run_ctx(g%d::get(), %d, idx, mode, in); else {\n#ifdef VF_CTX_ANY\n    if (mode >= 20) vf::run_ctx(g%d::get(), %d, idx, mode, in); else\n#endif\n    vf::run_plain(g%d::get(), %d, idx, mode, in); } break;' % ((gi,) * 11))
    o.append('  }\n}')
    o.append('int main(int argc, char** argv) { return vf::main_loop(argc, argv, dispatch); }')
    return '\n'.join(o) + '\n'

# ------------------------------------------------------------------------------------------------
class Record:
    __slots__ = ('gi', 'idx', 'mode', 'res', 'root', 'events', 'stream', 'objs_alive', 'payload_live', 'copies', 'cb', 'extra')

def parse_output(out):
    """out: bytes. Returns (records list, dumps dict gi -> {'diag','dump','lex'}, meta dict)"""
    recs = []; dumps = {}; meta = {'end': False, 'cvec': [], 'garbage': []}
    for line in out.split(b'\n'):
        if not line: continue
        if line.startswith(b'O '):
            try:
                parts = line.decode('latin-1').split('|')
                h = parts[0].split()
                r = Record()
                r.gi = int(h[1]); r.idx = int(h[2]); r.mode = int(h[3]); r.res = int(h[4]); r.root = int(h[5])
                r.events = parts[1]; r.stream = binascii.unhexlify(parts[2]).decode('latin-1')
                a = parts[3].split(); r.objs_alive = int(a[0]); r.payload_live = int(a[1]); r.copies = int(a[2])
                r.cb = [int(x) for x in parts[4].split()]
                r.extra = parts[5] if len(parts) > 5 else ''
                recs.append(r)
            except Exception as e:
                meta['garbage'].append(line[:200].decode('latin-1'))
        elif line.startswith(b'DIAG ') or line.startswith(b'DUMP ') or line.startswith(b'LEX '):
            k, gi, hx = line.split(b' ', 2)
            dumps.setdefault(int(gi), {})[k.decode().lower()] = binascii.unhexlify(hx.strip()).decode('latin-1')
        elif line.startswith(b'END'):
            meta['end'] = True
        elif line.startswith(b'CVECTOR'):
            meta['cvec'].append(line.decode('latin-1'))
        else:
            meta['garbage'].append(line[:200].decode('latin-1'))
    return recs, dumps, meta

def hexin(b):
    return binascii.hexlify(b).decode() if b else '-'

def run_jobs(exe, jobs, timeout=900, env=None):
    """jobs: list of ('D', gi) or (gi, idx, mode, bytes). Returns (rc, recs, dumps, meta, stderr)"""
    lines = []
    for j in jobs:
        if j[0] == 'D': lines.append('D %d' % j[1])
        else: lines.append('%d %d %d %s' % (j[0], j[1], j[2], hexin(j[3])))
    d = os.path.join(common.WORK, 'jobs'); os.makedirs(d, exist_ok=True)
    fd, path = tempfile.mkstemp(prefix='j', dir=d)
    try:
        with os.fdopen(fd, 'w') as f: f.write('\n'.join(lines) + '\n')
        rc, out, err, to = common.run(exe, [path], timeout=timeout, env=env)
    finally:
        try: os.unlink(path)
        except OSError: pass
    recs, dumps, meta = parse_output(out)
    meta['timeout'] = to
    return rc, recs, dumps, meta, err.decode('latin-1', 'replace')


def build_tu(src, flavour, extra=(), name='tu'):
    """build a generated TU; if it fails because private names behind the friend hook changed (diagnostics point into the
    harness' access struct), degrade to public-API observations (-DVF_NO_ACCESS). Returns (exe, hook_available)."""
    try:
        return common.build(src, flavour, extra=list(extra), name=name), True
    except common.BuildError as e:
        if 'vf_harness.hpp' in e.diag or 'vf_driver.hpp' in e.diag or 'verif::access' in e.diag:
            return common.build(src, flavour, extra=list(extra) + ['-DVF_NO_ACCESS'], name=name), False
        raise
