"""C15: many threads call parse / context_parse / write_diag_str on shared const parser objects (constexpr and run-time
constructed; generated lexer, custom lexer, error recovery, contexts). Monitors: ThreadSanitizer, comparison with results
computed single-threaded beforehand, byte image of every parser object before/after, measured overlap of calls."""
import random, collections, traceback, re, os, tempfile, glob, shutil
from . import common, ref_lr1, gen_grammar as gg, emit_grammar as eg, lexer_check as lxc, model
from .grammar import Grammar, Rule, Term, simple

PRE = r'''
#include "vf_harness.hpp"
#include <thread>
#include <atomic>
#include <chrono>
#include <mutex>
using namespace ctpg; using namespace ctpg::buffers;
namespace vt {
inline thread_local unsigned long long rng = 88172645463325252ULL;
inline unsigned long long next() { rng ^= rng << 13; rng ^= rng >> 7; rng ^= rng << 17; return rng; }
inline void maybe_yield() { if ((next() & 7) == 0) std::this_thread::yield(); }
constexpr long NONE = -987654321L;
// nested parse: while the hook is set, every rule functor of the outer parse runs a complete parse on the same parser object
// functor state: every rule functor carries the salt of the parser object it was given to; a call through one object must only ever run that object's functors
inline thread_local long expect_salt = 0; inline std::atomic<long> salt_bad{ 0 };
inline void check_salt(long salt) { if (salt != expect_salt) ++salt_bad; }
// every stream handed to the library carries a locale with digit grouping: what a call changes in the caller's stream (flags, locale) shows up later
struct grouping : std::numpunct<char> { char do_thousands_sep() const override { return ','; } std::string do_grouping() const override { return "\3"; } };
inline void prep(std::ostream& s) { s.imbue(std::locale(s.getloc(), new grouping)); }
inline thread_local bool fresh_mode = false;     // isolated results: every call on an object without any history (a copy of a never-used parser)
inline thread_local long (*nest_fn)(const std::string&) = nullptr;
inline thread_local const std::string* nest_in = nullptr;
inline thread_local int nest_depth = 0;
inline thread_local long nest_calls = 0, nest_bad = 0, nest_want = 0;
inline void maybe_nest() { if (nest_fn && nest_depth == 0) { nest_depth = 1; ++nest_calls; if (nest_fn(*nest_in) != nest_want) ++nest_bad; nest_depth = 0; } }
template<class T> long cval(const T& v)
{
    if constexpr (std::is_same_v<T, ctpg::term_value<char>>) return long((unsigned char)v.get_value()) + 1000L * v.get_column() + 100000L * v.get_line();
    else if constexpr (std::is_same_v<T, ctpg::term_value<std::string_view>>) return long(v.get_value().size()) * 7 + (v.get_value().size() ? long((unsigned char)v.get_value()[0]) : 0) + 1000L * v.get_column() + 100000L * v.get_line();
    else if constexpr (std::is_same_v<T, ctpg::term_value<long>>) return v.get_value() + 1000L * v.get_column();
    else if constexpr (std::is_same_v<T, ctpg::no_type>) return 7;
    else return long(v);
}
template<int R> struct H { long salt = 0; template<class... A> long operator()(const A&... a) const { check_salt(salt); maybe_yield(); maybe_nest(); long h = R * 1000003L + 17; ((h = (h * 31 + cval(a)) % 2147483647L), ...); return h; } };
struct Ctx { long k = 5; long calls = 0; };
template<int R> struct HX { long salt = 0; template<class C, class... A> long operator()(C& c, const A&... a) const { check_salt(salt); maybe_yield(); maybe_nest(); ++c.calls; long h = R * 1000003L + c.k; ((h = (h * 31 + cval(a)) % 2147483647L), ...); return h; } };
struct TTf { long operator()(std::string_view sv) const { maybe_yield(); return long(sv.size()) * 13 + (sv.size() ? (unsigned char)sv[0] : 0); } };
struct ystream { std::string text; template<class T> ystream& operator<<(const T& v) { maybe_yield(); std::ostringstream o; o << v; text += o.str(); return *this; } };
template<const vf::lexspec* Sp> struct QuietLexer {
    unsigned long long scratch = 0;     // working state of the lexer object: a lexer object shared between calls makes threads race on it
    template<class It, class ES> ctpg::recognized_term match(ctpg::match_options, ctpg::source_point, It start, It end, ES&) {
        scratch = scratch * 31 + 7;
        if (start == end) return ctpg::recognized_term{};
        long rem = 0; { It i = start; while (!(i == end) && rem < 8) { ++i; ++rem; } }
        unsigned char c = (unsigned char)*start; int t = Sp->term[c]; if (t < 0) return ctpg::recognized_term{};
        long l = Sp->len[c]; if (l > rem) l = rem; return ctpg::recognized_term(ctpg::size16_t(t), size_t(l)); } };
template<class O> long ov(const O& o) { return o.has_value() ? *o : NONE; }
inline unsigned long long hash(const std::string& s) { unsigned long long h = 1469598103934665603ULL; for (unsigned char c : s) { h ^= c; h *= 1099511628211ULL; } return h; }
struct Res { long v; unsigned long long sh; long extra; bool operator==(const Res& o) const { return v == o.v && sh == o.sh && extra == o.extra; } };
template<bool IsCtx, class P> Res do_op(const P& p, int op, const std::string& in)
{
    Res r{ 0, 0, 0 };
    try {
        switch (op) {
        case 0: {
            // outside the isolated phase every thread keeps ONE std::ostringstream for all its calls (text cleared, formatting state kept): what a call
            // leaves behind in the caller's stream (sticky manipulators) shows up in the text of a later call
            static thread_local std::ostringstream kept; static thread_local bool kept_ready = (prep(kept), true); (void)kept_ready; std::ostringstream fresh_ss; prep(fresh_ss);
            std::ostringstream& ss = (fresh_mode || nest_fn || nest_depth > 0) ? fresh_ss : kept; ss.str(std::string());      // (nested parses would share the kept stream with their outer parse)
            string_buffer b{ std::string(in) }; if constexpr (IsCtx) { Ctx c; r.v = ov(p.context_parse(c, b, ss)); r.extra = c.calls; } else r.v = ov(p.parse(b, ss)); r.sh = hash(ss.str()); break; }
        case 1: { string_buffer b{ std::string(in) }; ystream ss; if constexpr (IsCtx) { Ctx c; r.v = ov(p.context_parse(c, parse_options{}.set_verbose(), b, ss)); r.extra = c.calls; } else r.v = ov(p.parse(parse_options{}.set_verbose(), b, ss)); r.sh = hash(ss.text); break; }
        case 2: { string_view_buffer b{ std::string_view(in) }; if constexpr (IsCtx) { const Ctx c; struct CX { const Ctx& c; }; r.v = NONE + 1; } else r.v = ov(p.parse(b)); break; }
        case 3: {
            // write_diag_str into the stream the thread also uses for its parses (numbers >= 1000 are printed with the caller's digit grouping)
            static thread_local std::ostringstream kept3; static thread_local bool ready3 = (prep(kept3), true); (void)ready3; std::ostringstream fresh_ss; prep(fresh_ss);
            std::ostringstream& ss = fresh_mode ? fresh_ss : kept3; ss.str(std::string());
            if (!fresh_mode) { string_buffer b{ std::string("\xe9?") }; if constexpr (IsCtx) { Ctx c; (void)p.context_parse(c, b, ss); } else (void)p.parse(b, ss); ss.str(std::string()); }      // a failing parse wrote to this stream before
            p.write_diag_str(ss); r.sh = hash(ss.str()); r.v = long(ss.str().size()); break; }
        }
    } catch (const std::exception& e) { r.v = -111; }
    return r;
}
}
'''

def emit_one(g, gi, runtime_ctor):
    o = ['namespace g%d {' % gi]
    for i, n in enumerate(g.nts): o.append('constexpr nterm<long> n%d(%s);' % (i, eg.cstr(n)))
    tref = []
    custom = getattr(g, 'lexspec', None) is not None
    if custom:
        o.append('constexpr vf::lexspec spec = { { %s }, { %s } };' % (', '.join(str(x) for x in g.lexspec[0]), ', '.join(str(x) for x in g.lexspec[1])))
    for j, t in enumerate(g.terms):
        if t.kind == 'k':
            o.append('constexpr custom_term t%d(%s, vt::TTf{}, %d, %s);' % (j, eg.cstr(t.display()), t.prec, eg.ASSOC[t.assoc])); ref = 't%d' % j
        elif t.kind == 'c':
            o.append('constexpr char_term t%d(%s, %d, %s);' % (j, eg.cchar(t.text), t.prec, eg.ASSOC[t.assoc])); ref = 't%d' % j
        elif t.kind == 's':
            o.append('constexpr string_term t%d(%s, %d, %s);' % (j, eg.cstr(t.text), t.prec, eg.ASSOC[t.assoc])); ref = 't%d' % j
        else:
            o.append('constexpr char pat%d[] = %s;' % (j, eg.cstr(t.text)))
            o.append('constexpr regex_term<pat%d> t%d(%s, %d, %s);' % (j, j, eg.cstr(t.name or ('T%d' % j)), t.prec, eg.ASSOC[t.assoc])); ref = 't%d' % j
        if t.typed and t.kind != 'k':
            o.append('constexpr typed_term tt%d(%s, vt::TTf{});' % (j, ref)); ref = 'tt%d' % j
        tref.append(ref)
    is_ctx = any(r.ftor == 'x' for r in g.rules)
    rules = []
    for ri, r in enumerate(g.rules):
        args = []
        for s in r.rhs:
            if s[0] == 'n': args.append('n%d' % s[1])
            elif s[0] == 'e': args.append('error')
            else: args.append(tref[s[1]])
        txt = 'n%d(%s)' % (r.lhs, ', '.join(args))
        if r.prec: txt += '[%d]' % r.prec
        txt += (' >>= vt::HX<%d>{ @SALT@ }' % ri) if r.ftor == 'x' else (' >= vt::H<%d>{ @SALT@ }' % ri)
        rules.append(txt)
    tail = ', use_lexer<vt::QuietLexer<&spec>>{}' if custom else ''
    decl = 'parser p(n%d, terms(%s), nterms(%s), rules(\n  %s\n)%s);' % (g.root, ', '.join(tref), ', '.join('n%d' % i for i in range(len(g.nts))), ',\n  '.join(rules), tail)
    o.append('inline auto make(long SALT = 0) { ' + decl.replace('@SALT@', 'SALT') + ' return p; }')     # a fresh parser object built at run time by the calling thread
    o.append('inline const auto& pristine() { static const auto* q = new auto(make()); return *q; }')     # never used for any call: copies of it are objects without history
    decl = decl.replace('@SALT@', '0')
    if runtime_ctor: o.append('inline const auto& get() { static const auto* q = new ' + decl.replace('parser p(', 'parser(', 1).rstrip(';') + '; return *q; }')
    else:
        o.append('constexpr ' + decl); o.append('inline const auto& get() { return p; }')
    o.append('constexpr bool is_ctx = %s;' % ('true' if is_ctx else 'false'))
    o.append('}')
    return '\n'.join(o)

MAIN = r'''
struct Case { int gi; int op; std::string in; vt::Res want; };
static vt::Res run_case(const Case& c)
{
    switch (c.gi) {
%(dispatch)s
    }
    return vt::Res{ 0, 0, 0 };
}
static std::string image(int gi)
{
    switch (gi) {
%(images)s
    }
    return std::string();
}
int main(int argc, char** argv)
{
    int nthreads = std::atoi(argv[2]); long iters = std::atol(argv[3]); unsigned long long seed = std::strtoull(argv[4], nullptr, 10);
    std::vector<Case> cases;
    { std::ifstream in(argv[1]); std::string line; while (std::getline(in, line)) { std::istringstream ls(line); Case c; std::string hx; ls >> c.gi >> c.op >> hx; if (hx == "-") hx.clear(); c.in = vf::unhex(hx); cases.push_back(c); } }
    // isolated results, computed single-threaded, each call on its own copy of a never-used parser object
    std::vector<std::string> before; for (int g = 0; g < %(ng)d; ++g) before.push_back(image(g));      // before any call on the shared objects
    vt::fresh_mode = true;
    for (auto& c : cases) { std::printf("I %d %d\n", c.gi, c.op); std::fflush(stdout); c.want = run_case(c); }
    vt::fresh_mode = false;
    std::printf("ISOLATED-DONE\n"); std::fflush(stdout);
    for (auto& c : cases) std::printf("W %d %d %ld %llu %ld\n", c.gi, c.op, c.want.v, c.want.sh, c.want.extra);
    // history independence: the same calls in a shuffled order (after failing and recovering calls) reproduce the isolated results
    long hist_bad = 0;
    { std::vector<size_t> order(cases.size()); for (size_t i = 0; i < order.size(); ++i) order[i] = i; vt::rng = seed | 1;
      for (int rep = 0; rep < 3; ++rep) { for (size_t i = order.size(); i > 1; --i) std::swap(order[i - 1], order[vt::next() % i]);
        for (size_t i : order) { vt::Res r = run_case(cases[i]); if (!(r == cases[i].want)) { if (!hist_bad) std::printf("HB %zu %ld %llu %ld\n", i, r.v, r.sh, r.extra); ++hist_bad; } } } }
    std::atomic<long> mismatches{ 0 }; std::atomic<int> ready{ 0 }; std::atomic<bool> go{ false };
    std::mutex mu; std::vector<std::string> firstbad;
    struct Iv { long long s, e; int op; int th; };
    std::vector<std::vector<Iv>> ivs(nthreads);
    std::vector<std::thread> th;
    auto t0 = std::chrono::steady_clock::now();
    for (int t = 0; t < nthreads; ++t) th.emplace_back([&, t] {
        vt::rng = (seed + 1) * 2654435761ULL + t * 40503ULL + 1;
        ++ready; while (!go.load()) std::this_thread::yield();
        for (long i = 0; i < iters; ++i) {
            const Case& c = cases[vt::next() % cases.size()];
            auto a = std::chrono::steady_clock::now();
            vt::Res r = run_case(c);
            auto b = std::chrono::steady_clock::now();
            ivs[t].push_back(Iv{ std::chrono::duration_cast<std::chrono::nanoseconds>(a - t0).count(), std::chrono::duration_cast<std::chrono::nanoseconds>(b - t0).count(), c.op, t });
            if (!(r == c.want)) { ++mismatches; std::lock_guard<std::mutex> lk(mu); if (firstbad.size() < 3) firstbad.push_back(std::to_string(c.gi) + " " + std::to_string(c.op) + " " + vf::hex(c.in.substr(0, 200)) + " got " + std::to_string(r.v) + "/" + std::to_string(r.sh) + "/" + std::to_string(r.extra) + " want " + std::to_string(c.want.v) + "/" + std::to_string(c.want.sh) + "/" + std::to_string(c.want.extra)); }
        } });
    while (ready.load() < nthreads) std::this_thread::yield();
    go = true;
    for (auto& x : th) x.join();
    long image_changed = 0; for (int g = 0; g < %(ng)d; ++g) if (image(g) != before[g]) { ++image_changed; std::printf("IMG %d changed\n", g); }
    // overlap: sweep over all intervals, count pairs from different threads that overlap, by operation kind of the later starter
    std::vector<Iv> all; for (auto& v : ivs) all.insert(all.end(), v.begin(), v.end());
    std::sort(all.begin(), all.end(), [](const Iv& a, const Iv& b) { return a.s < b.s; });
    long long pairs[6] = { 0, 0, 0, 0, 0, 0 }; std::vector<Iv> active;
    for (const Iv& iv : all) { size_t w = 0; for (size_t i = 0; i < active.size(); ++i) if (active[i].e > iv.s) active[w++] = active[i]; active.resize(w);
        for (const Iv& a : active) if (a.th != iv.th) ++pairs[iv.op > 5 ? 5 : iv.op]; active.push_back(iv); }
    std::printf("SUM calls %zu mismatches %ld hist_bad %ld image_changed %ld overlap %lld %lld %lld %lld %lld %lld\n", all.size(), mismatches.load(), hist_bad, image_changed, pairs[0], pairs[1], pairs[2], pairs[3], pairs[4], pairs[5]);
    std::printf("SALT %ld\n", vt::salt_bad.load());
    for (auto& s : firstbad) std::printf("BAD %s\n", s.c_str());
    std::printf("END\n");
    return 0;
}
'''

def emit_tu(gs, runtime):
    o = [PRE]
    for gi, g in enumerate(gs): o.append(emit_one(g, gi, gi in runtime))
    nest = ('if (c.op == 6) { auto q = g%d::make(777); vt::expect_salt = 777; vt::Res r = vt::do_op<g%d::is_ctx>(q, 0, c.in); vt::expect_salt = 0; return r; } '
            'if (vt::fresh_mode && c.op <= 3) { auto q = g%d::pristine(); return vt::do_op<g%d::is_ctx>(q, c.op, c.in); } '
            'if (c.op == 5) { auto q0 = g%d::pristine(); vt::Res iso = vt::do_op<g%d::is_ctx>(q0, 0, c.in); vt::nest_in = &c.in; vt::nest_want = iso.v; vt::nest_calls = 0; vt::nest_bad = 0; '
            'vt::nest_fn = [](const std::string& s) { return vt::do_op<g%d::is_ctx>(g%d::get(), 0, s).v; }; vt::Res r = vt::do_op<g%d::is_ctx>(g%d::get(), 0, c.in); vt::nest_fn = nullptr; '
            'if (!(r == iso)) r.extra = -777777; else if (vt::nest_bad) r.extra = -777778; else r.extra = vt::nest_calls; return r; } ')
    def case(gi):
        old = ('if (c.op == 4) { auto q = g%d::make(); vt::Res r = vt::do_op<g%d::is_ctx>(q, 3, c.in); vt::Res r2 = vt::do_op<g%d::is_ctx>(q, 0, c.in); r.extra = r2.v; return r; } '
               'return vt::do_op<g%d::is_ctx>(g%d::get(), c.op, c.in);') % ((gi,) * 5)
        return '    case %d: ' % gi + nest % ((gi,) * 10) + old
    disp = '\n'.join(case(gi) for gi in range(len(gs)))
    imgs = '\n'.join('    case %d: return ctpg::verif::access::image(g%d::get());' % (gi, gi) for gi in range(len(gs)))
    o.append(MAIN.replace('%(dispatch)s', disp).replace('%(images)s', imgs).replace('%(ng)d', str(len(gs))))
    return '\n'.join(o)

def make_grammars(rnd, n):
    gs = []
    pool = [g for g in gg.core_grammars() if ref_lr1.build(g).lr1]
    rnd.shuffle(pool)
    gs += [gg.decorate(g, rnd, vtypes=False, dflt=0, typed=0.4, strings=0.4, ctx=(0.5 if i % 3 == 0 else 0)) for i, g in enumerate(pool[: max(2, n // 3)])]
    for ts in rnd.sample(lxc.fixed_termsets(), max(1, n // 4)):
        tg = lxc.token_grammar(ts, 'tokens'); gs.append(tg)
    ec = gg.err_core(); rnd.shuffle(ec); gs += ec[: max(1, n // 4)]
    gs.append(gg.to_custom_lexer(pool[-1], rnd))
    for g in gs: g.vtypes = ['I'] * len(g.nts)
    return gs[:n]

def inputs_for(g, rnd, n):
    tb = ref_lr1.build(g)
    outs = []
    m = gg.productive(g)
    from . import ref_regex as rr
    def tbytes(t):
        term = g.terms[t]
        if term.kind == 'r': return rr.sample_string(rr.parse(term.text.encode('latin-1')), rnd)
        return term.text.encode('latin-1')
    for _ in range(n):
        s = gg.random_sentence(g, rnd, target=rnd.choice([3, 10, 40, 150]), minlen=m)
        if s is None: s = []
        if rnd.random() < 0.4: s = gg.mutate_tokens(s, len(g.terms), rnd)
        outs.append(b''.join(tbytes(t) + (b' ' if (rnd.random() < 0.3 or g.terms[t].kind == 'r') else b'') for t in s))
    outs.append(b''); outs.append(b'?'); outs.append(b'\xe9'); outs.append(b'\x00')
    if outs and outs[0]: outs.append(outs[0][: len(outs[0]) // 2] + b'\xc3\xa9' + outs[0][len(outs[0]) // 2:])
    return outs

def worker(spec):
    try:
        return _worker(spec)
    except common.BuildError as e:
        return {'counts': {}, 'viol': [], 'samples': [], 'distinct': [], 'incon': ['thread harness build (%s): %s' % (spec.get('flavour'), e.diag[:800])]}
    except Exception:
        return {'counts': {}, 'viol': [], 'samples': [], 'distinct': [], 'incon': ['thread worker: ' + traceback.format_exc()[-1500:]]}

def _worker(spec):
    rnd = random.Random(spec['seed'])
    gs = make_grammars(rnd, spec['n_grammars'])
    runtime = {i for i in range(len(gs)) if i % 2 == 1}
    out = {'counts': collections.Counter(), 'viol': [], 'samples': [], 'distinct': [], 'incon': []}
    C = out['counts']
    exe = common.build(emit_tu(gs, runtime), spec['flavour'], name='threads')
    lines = []
    for gi, g in enumerate(gs):
        for d in inputs_for(g, rnd, spec['n_inputs']):
            for op in (0, 1, 2): lines.append('%d %d %s' % (gi, op, eg.hexin(d)))
        for d in inputs_for(g, rnd, 3)[:3]: lines.append('%d 6 %s' % (gi, eg.hexin(d)))     # a second object of the same type whose functors carry other state
        for d in inputs_for(g, rnd, 3)[:3]:
            if len(d) <= 400: lines.append('%d 5 %s' % (gi, eg.hexin(d)))     # nested: every functor of the outer parse parses the same text on the same object
        lines.append('%d 3 -' % gi)
        for d in inputs_for(g, rnd, 2)[:2]: lines.append('%d 4 %s' % (gi, eg.hexin(d)))     # construct a fresh parser in the calling thread, diagnose and parse with it
    d = os.path.join(common.WORK, 'jobs'); os.makedirs(d, exist_ok=True)
    fd, path = tempfile.mkstemp(prefix='t', dir=d)
    logdir = tempfile.mkdtemp(prefix='tsan', dir=d)
    try:
        with os.fdopen(fd, 'w') as f: f.write('\n'.join(lines) + '\n')
        for nthreads in spec['threads']:
            env = {'TSAN_OPTIONS': 'halt_on_error=0:report_signal_unsafe=0:log_path=%s/tsan:second_deadlock_stack=1' % logdir}
            rc, so, se, to = common.run(exe, [path, str(nthreads), str(spec['iters']), str(spec['seed'] + nthreads)], timeout=spec.get('timeout', 300), env=env, big_stack=False)
            text = so.decode('latin-1')
            reports = []
            for f in glob.glob(logdir + '/tsan*'):
                reports += re.findall(r'WARNING: ThreadSanitizer: [^\n]*\n(?:.*\n){0,12}', open(f, errors='replace').read())
                os.unlink(f)
            C['thread_runs'] += 1
            m = re.search(r'SUM calls (\d+) mismatches (\d+) hist_bad (\d+) image_changed (\d+) overlap (\d+) (\d+) (\d+) (\d+) (\d+) (\d+)', text)
            if to or 'END' not in text or not m:
                if 'ISOLATED-DONE' not in text:
                    last = [l for l in text.split('\n') if l.startswith('I ')][-1:]
                    opn = {'0': 'parse', '1': 'verbose parse', '2': 'parse without stream', '3': 'write_diag_str', '4': 'run-time construction', '5': 'nested parse (functors parse on the same object)'}
                    what = 'single-threaded %s of grammar #%s' % (opn.get(last[0].split()[2], '?'), last[0].split()[1]) if last else 'start-up'
                    out['viol'].append((['site:single-thread@crash'], 'before any thread was started: %s %s rc=%s: %s' % (what, 'did not terminate' if to else 'aborted', rc, se.decode('latin-1', 'replace')[-300:]), {'grammars': [g.to_json() for g in gs]}))
                    continue
                out['viol'].append((['site:threads@crash'], '%d threads on shared parsers: run %s rc=%s: %s' % (nthreads, 'timed out' if to else 'aborted', rc, (se.decode('latin-1', 'replace') or text)[-400:]), {'grammars': [g.to_json() for g in gs]}))
                continue
            calls, mism, hist, img = (int(m.group(i)) for i in range(1, 5)); ov = [int(m.group(i)) for i in range(5, 11)]
            C['evaluations'] += calls; C['concurrent_calls'] += calls
            C['overlapping_call_pairs_parse'] += ov[0]; C['overlapping_call_pairs_verbose_parse'] += ov[1]; C['overlapping_call_pairs_parse_nostream'] += ov[2]; C['overlapping_call_pairs_write_diag_str'] += ov[3]; C['overlapping_call_pairs_run_time_construction'] += ov[4]; C['overlapping_call_pairs_nested_parse'] += ov[5]
            C['race_report_blocks'] += len(reports)
            C['parser_objects_imaged'] += len(gs)
            for gi_, g in enumerate(gs): out['distinct'].append(common.sha(g.key(), str(nthreads))[:12])
            nested = [l.split() for l in text.split('\n') if l.startswith('W ') and l.split()[2] == '5']
            C['nested_parse_cases'] += len(nested); C['nested_parses_inside_functors'] += sum(max(0, int(w[5])) for w in nested)
            nb = [w for w in nested if int(w[5]) in (-777777, -777778)]
            if nb: out['viol'].append((['site:nested@result'], 'a parse whose functors parse on the same parser object (single thread) %s: %d case(s), first grammar #%s' % (
                'returns something else than in isolation' if int(nb[0][5]) == -777777 else 'disturbs the nested parses', len(nb), nb[0][1]), {'grammars': [g.to_json() for g in gs]}))
            ms = re.search(r'SALT (\d+)', text)
            if ms and int(ms.group(1)):
                out['viol'].append((['site:functor-state@other-object'], '%d functor calls ran with the state of another parser object than the one parse was called on (two objects of one type with different functor state)' % int(ms.group(1)), {'grammars': [g.to_json() for g in gs]}))
            C['calls_on_second_object_of_same_type'] += len([l for l in lines if l.split()[1] == '6'])
            bad = [l for l in text.split('\n') if l.startswith('BAD ') or l.startswith('HB ') or l.startswith('IMG ')]
            if mism: out['viol'].append((['site:threads@result'], '%d threads: %d of %d concurrent calls returned something else than in isolation: %s' % (nthreads, mism, calls, bad[:2]), {'grammars': [g.to_json() for g in gs], 'bad': bad}))
            if hist: out['viol'].append((['site:history@result'], 'single-threaded shuffled history: %d calls differ from their isolated results: %s' % (hist, bad[:2]), {'grammars': [g.to_json() for g in gs], 'bad': bad}))
            if img: out['viol'].append((['site:parser-object@modified'], '%d parser objects changed their byte image between the first and the last call (single-threaded history + concurrent calls): %s' % (img, bad[:3]), {'grammars': [g.to_json() for g in gs]}))
            if reports:
                sigs = collections.Counter(re.sub(r'0x[0-9a-f]+|\bT\d+\b|pid=\d+', '', r.split('\n')[0]) for r in reports)
                out['viol'].append((['site:threads@race'], '%d threads: ThreadSanitizer reported %d block(s): %s ... %s' % (nthreads, len(reports), dict(sigs), reports[0][:600]), {'reports': reports[:5]}))
            if sum(ov) == 0 and nthreads > 1: out['incon'].append('no overlapping calls were observed with %d threads' % nthreads)
        out['samples'].append({'grammars': [g.text() for g in gs[:3]], 'operations': ['parse', 'verbose parse (user stream)', 'parse without stream (string_view_buffer)', 'write_diag_str'], 'threads': spec['threads'], 'iterations_per_thread': spec['iters']})
    finally:
        try: os.unlink(path)
        except OSError: pass
        shutil.rmtree(logdir, ignore_errors=True)
    return out
