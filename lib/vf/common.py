"""Shared machinery: paths, cached builds from /repo's current tree, parallel map,
verdicts (held / violated / inconclusive), known-findings matching, evidence files."""
import os, sys, json, hashlib, subprocess, time, shutil, random, tempfile, signal
from concurrent.futures import ProcessPoolExecutor

VERIF = os.path.dirname(os.path.dirname(os.path.dirname(os.path.abspath(__file__))))
REPO = os.environ.get('VERIF_REPO', '/repo')
WORK = os.environ.get('VERIF_WORK', os.path.join(VERIF, '.work'))
HARNESS = os.path.join(VERIF, 'harness')
NPROC = int(os.environ.get('VERIF_JOBS', str(os.cpu_count() or 4)))
GUARD = 'CTPG_VERIF'

def seed():
    try: return int(os.environ.get('VERIF_SEED', '1'))
    except ValueError: return 1

def sha(*parts):
    h = hashlib.sha256()
    for p in parts:
        if isinstance(p, str): p = p.encode('utf-8', 'surrogateescape')
        h.update(p); h.update(b'\0')
    return h.hexdigest()

_tree_hash = None
def tree_hash():
    """hash of everything a build depends on: /repo/include/** and /verif/harness/**"""
    global _tree_hash
    if _tree_hash is None:
        parts = []
        for root in (os.path.join(REPO, 'include'), HARNESS):
            for d, _, fs in sorted(os.walk(root)):
                for f in sorted(fs):
                    p = os.path.join(d, f)
                    parts.append(p); parts.append(open(p, 'rb').read())
        _tree_hash = sha(*parts)
    return _tree_hash

FLAVOURS = {
    # name: (compiler, flags)
    'gxx':      ('g++',     ['-O1', '-g0', '-fconstexpr-ops-limit=2000000000', '-fconstexpr-loop-limit=100000000']),
    'gxx0':     ('g++',     ['-O0', '-g0', '-fconstexpr-ops-limit=2000000000', '-fconstexpr-loop-limit=100000000']),
    'clang':    ('clang++', ['-O0', '-g0', '-fconstexpr-steps=2000000000', '-fbracket-depth=1024']),
    'clang1':   ('clang++', ['-O1', '-g0', '-fconstexpr-steps=2000000000', '-fbracket-depth=1024']),
    'asan':     ('clang++', ['-O1', '-g', '-fno-omit-frame-pointer', '-fsanitize=address,undefined', '-fno-sanitize=object-size',
                             '-fno-sanitize-recover=all', '-D_GLIBCXX_ASSERTIONS', '-fconstexpr-steps=2000000000', '-fbracket-depth=1024']),
    'asan0':    ('clang++', ['-O0', '-g', '-fno-omit-frame-pointer', '-fsanitize=address,undefined', '-fno-sanitize=object-size',
                             '-fno-sanitize-recover=all', '-D_GLIBCXX_ASSERTIONS', '-fconstexpr-steps=2000000000', '-fbracket-depth=1024']),
    'gasan':    ('g++',     ['-O1', '-g', '-fno-omit-frame-pointer', '-fsanitize=address,bounds', '-fno-sanitize-recover=all',
                             '-D_GLIBCXX_ASSERTIONS', '-fconstexpr-ops-limit=2000000000', '-fconstexpr-loop-limit=100000000']),
    'tsan':     ('g++',     ['-O1', '-g', '-fsanitize=thread', '-fconstexpr-ops-limit=2000000000', '-fconstexpr-loop-limit=100000000']),
    'fuzz':     ('clang++', ['-O1', '-g', '-fno-omit-frame-pointer', '-fsanitize=fuzzer,address,undefined', '-fno-sanitize=object-size',
                             '-fno-sanitize-recover=all', '-D_GLIBCXX_ASSERTIONS', '-fconstexpr-steps=2000000000', '-fbracket-depth=1024']),
    'gsyntax':  ('g++',     ['-fsyntax-only', '-fconstexpr-ops-limit=2000000000', '-fconstexpr-loop-limit=100000000']),
    'csyntax':  ('clang++', ['-fsyntax-only', '-fconstexpr-steps=2000000000', '-fbracket-depth=1024']),
}

def trunc(text, width=300, lines=60):
    out = []
    for l in text.splitlines():
        out.append(l[:width])
        if len(out) >= lines: out.append('...'); break
    return '\n'.join(out)

ENV_FAILURES = ('No space left on device', 'IO failure on output stream', 'Killed signal', 'internal compiler error', 'out of memory', 'Cannot allocate memory', 'cannot allocate memory', 'Disk quota exceeded')

class BuildError(Exception):
    def __init__(self, msg, diag, src): super().__init__(msg); self.diag = diag; self.src = src

def build(src_text, flavour='gxx', extra=(), link_handler=True, name='tu', timeout=1800, defines=(GUARD,)):
    """Compile src_text against /repo's current tree (hooks on). Returns path of the executable
    (or of a stamp file for -fsyntax-only). Raises BuildError with truncated diagnostics."""
    comp, flags = FLAVOURS[flavour]
    syntax = '-fsyntax-only' in flags
    flags = list(flags) + list(extra) + ['-D' + d for d in defines]
    key = sha(tree_hash(), src_text, comp, ' '.join(flags), str(link_handler))[:32]
    d = os.path.join(WORK, 'build', key[:2])
    out = os.path.join(d, key + ('.ok' if syntax else '.exe'))
    err = os.path.join(d, key + '.err')
    if os.path.exists(out): return out
    if os.path.exists(err):
        raise BuildError('build failed (cached)', open(err).read(), src_text)
    os.makedirs(d, exist_ok=True)
    tmpd = tempfile.mkdtemp(prefix='b', dir=d)
    try:
        src = os.path.join(tmpd, name + '.cpp')
        open(src, 'w').write(src_text)
        cmd = [comp, '-std=c++17', '-w', '-I', os.path.join(REPO, 'include'), '-I', HARNESS] + flags + [src]
        if not syntax:
            cmd += ['-o', os.path.join(tmpd, 'a.out'), '-pthread']
        try:
            r = subprocess.run(cmd, capture_output=True, text=True, errors='replace', timeout=timeout)
        except subprocess.TimeoutExpired:
            raise BuildError('build timeout', 'compiler timeout after %ds' % timeout, src_text)
        if r.returncode != 0:
            diag = trunc('\n'.join(l for l in r.stderr.splitlines() if 'error' in l or 'note: ' in l or (name + '.cpp:') in l) or r.stderr, lines=80)
            if any(w in r.stderr for w in ENV_FAILURES):
                # the machine, not the program (disk full, killed compiler, ...): never cached, and not a verdict about the code
                raise Inconclusive('compiler failed for an environmental reason: ' + trunc(r.stderr, lines=4))
            tmp = err + '.%d' % os.getpid()
            open(tmp, 'w').write(diag); os.replace(tmp, err)
            raise BuildError('build failed', diag, src_text)
        if syntax:
            open(os.path.join(tmpd, 'ok'), 'w').write('ok'); os.replace(os.path.join(tmpd, 'ok'), out)
        else:
            os.replace(os.path.join(tmpd, 'a.out'), out)
        return out
    finally:
        shutil.rmtree(tmpd, ignore_errors=True)

MEM_LIMIT_MB = int(os.environ.get('VERIF_MEM_MB', '6000'))

def _stack():
    # run-time construction of a parser keeps the whole LR(1) analyser in one stack frame (tens of megabytes for mid-sized grammars)
    import resource
    try:
        soft, hard = resource.getrlimit(resource.RLIMIT_STACK)
        want = 4 << 30
        resource.setrlimit(resource.RLIMIT_STACK, (want if hard == resource.RLIM_INFINITY or hard >= want else hard, hard))
    except Exception: pass

def _limits():
    _stack(); _limits_only()

def _limits_only():
    # plain builds: cap the address space so that a runaway parse cannot exhaust the machine (sanitizer builds reserve
    # terabytes of shadow memory, they are capped through hard_rss_limit_mb instead)
    import resource
    try: resource.setrlimit(resource.RLIMIT_AS, (MEM_LIMIT_MB * 1024 * 1024, MEM_LIMIT_MB * 1024 * 1024))
    except Exception: pass

def run(exe, args=(), stdin=None, timeout=600, env=None, cwd=None, sanitized=None, big_stack=True):
    """Run a built binary. Returns (returncode, stdout bytes, stderr bytes, timed_out)."""
    e = dict(os.environ)
    e.setdefault('ASAN_OPTIONS', 'abort_on_error=0:detect_leaks=1:halt_on_error=1:allocator_may_return_null=1')
    e.setdefault('UBSAN_OPTIONS', 'print_stacktrace=1:halt_on_error=1')
    if env: e.update(env)
    for k in ('ASAN_OPTIONS', 'TSAN_OPTIONS'):
        if 'hard_rss_limit_mb' not in e.get(k, ''): e[k] = (e.get(k, '') + ':' if e.get(k) else '') + 'hard_rss_limit_mb=%d' % MEM_LIMIT_MB
    if sanitized is None:
        try:
            with open(exe, 'rb') as f: sanitized = (b'__asan_init' in f.read(4000000)) or False
        except Exception: sanitized = True
        if not sanitized:
            try:
                with open(exe, 'rb') as f: blob = f.read()
                sanitized = b'__tsan_init' in blob or b'__asan_init' in blob or b'LLVMFuzzerTestOneInput' in blob
            except Exception: sanitized = True
    try:
        r = subprocess.run([exe] + list(args), input=stdin, capture_output=True, timeout=timeout, env=e, cwd=cwd, preexec_fn=((_stack if big_stack else None) if sanitized else (_limits if big_stack else _limits_only)))
        return r.returncode, r.stdout, r.stderr, False
    except subprocess.TimeoutExpired as ex:
        return -9, ex.stdout or b'', ex.stderr or b'', True

def pmap(fn, items, jobs=None):
    items = list(items)
    if not items: return []
    jobs = jobs or NPROC
    if jobs <= 1 or len(items) == 1:
        return [fn(x) for x in items]
    with ProcessPoolExecutor(min(jobs, len(items))) as ex:
        return list(ex.map(fn, items))

# ---------------------------------------------------------------------------------------------
# known findings

class Findings:
    def __init__(self, path=None):
        self.path = path or os.path.join(VERIF, 'known_findings.txt')
        self.findings = []   # (property, key, text)
        self.fixed = []
        if os.path.exists(self.path):
            for line in open(self.path):
                line = line.strip()
                if not line or line.startswith('#'): continue
                if line.startswith('finding:'):
                    f = dict(x.split('=', 1) for x in line.split()[1:3])
                    rest = line.split(None, 3)[3] if len(line.split(None, 3)) > 3 else ''
                    self.findings.append((f['property'], f['key'], rest))
                elif line.startswith('fixed:'):
                    self.fixed.append(line)
    def match(self, prop, keys):
        for p, k, text in self.findings:
            if p == prop and k in keys: return (k, text)
        return None

# ---------------------------------------------------------------------------------------------
# a check run: collects violations, known findings, evidence

class Inconclusive(Exception): pass

class Check:
    def __init__(self, prop, tier, level='exploration'):
        self.prop = prop; self.tier = tier; self.level = level
        self.t0 = time.time()
        self.findings = Findings()
        self.violations = []       # (keys, summary, replay dict)
        self.known = {}            # key -> [text, count]
        self.cov = {'evaluations': 0, 'distinct_nontrivial': 0, 'rule': '', 'samples': []}
        self.assumptions = []
        self.inconclusive = []
        self._distinct = set()
        self._samples_seen = set()
    def count(self, key, n=1): self.cov[key] = self.cov.get(key, 0) + n
    def distinct(self, h): self._distinct.add(h)
    def sample(self, s, cap=6):
        k = json.dumps(s, sort_keys=True, default=str)
        if len(self.cov['samples']) < cap and k not in self._samples_seen:
            self._samples_seen.add(k); self.cov['samples'].append(s)
    def violation(self, keys, summary, replay):
        """keys: list of known-finding keys this violation would match (most specific first)"""
        m = self.findings.match(self.prop, set(keys))
        if m:
            k, text = m
            self.known.setdefault(k, [text, 0])[1] += 1
            return False
        self.violations.append((keys, summary, replay))
        return True
    def note_inconclusive(self, why): self.inconclusive.append(why)
    def finish(self, floor_events=1):
        self.cov['distinct_nontrivial'] = max(self.cov.get('distinct_nontrivial', 0), len(self._distinct))
        wall = time.time() - self.t0
        evdir = os.environ.get('VERIF_EVDIR') or (os.path.join(VERIF, 'evidence') if REPO == '/repo' else os.path.join(WORK, 'alt-evidence'))
        os.makedirs(evdir, exist_ok=True)
        os.makedirs(os.path.join(VERIF, 'replays'), exist_ok=True)
        lines = []
        for k, (text, n) in sorted(self.known.items()):
            lines.append('KNOWN-FINDING: property=%s %s [key=%s, observed %d times]' % (self.prop, text, k, n))
        seen = set()
        for keys, summary, replay in self.violations:
            h = sha(json.dumps(keys), summary)[:12]
            if h in seen: continue
            seen.add(h)
            path = os.path.join(VERIF, 'replays', '%s-%s.json' % (self.prop, h))
            json.dump({'property': self.prop, 'keys': keys, 'summary': summary, 'seed': seed(), 'tier': self.tier, 'case': replay},
                      open(path, 'w'), indent=1, default=str)
            lines.append('VIOLATION property=%s replay=%s' % (self.prop, path))
            lines.append('  # ' + summary[:400])
            if len(seen) >= 25: break
        self.cov['known_findings_observed'] = {k: n for k, (t, n) in self.known.items()}
        ev = {'property_id': self.prop, 'tier': self.tier, 'seed': seed(), 'level': self.level,
              'coverage': self.cov, 'assumptions': self.assumptions, 'wall_s': round(wall, 2),
              'violations': len(seen), 'verdict': 'violated' if seen else ('inconclusive' if self.inconclusive else 'held-on-observed'),
              'inconclusive_reasons': self.inconclusive[:10], 'tree_hash': tree_hash()[:16]}
        tmp = os.path.join(evdir, '.%s.json.%d' % (self.prop, os.getpid()))
        json.dump(ev, open(tmp, 'w'), indent=1, default=str)
        os.replace(tmp, os.path.join(evdir, '%s.json' % self.prop))
        for l in lines: print(l)
        print('%s %s tier=%s seed=%d evaluations=%d distinct=%d wall=%.1fs' % (
            self.prop, ev['verdict'], self.tier, seed(), self.cov['evaluations'], self.cov['distinct_nontrivial'], wall))
        sys.stdout.flush()
        if seen: return 1
        if self.inconclusive or self.cov['evaluations'] < floor_events:
            for w in self.inconclusive[:5]: print('INCONCLUSIVE:', w)
            return 2
        return 0


def prune_build_cache(max_age_hours=6.0, max_free_check_gb=30.0):
    """the build cache has no other eviction: drop entries that were not used for a while when the disk gets tight (a soak over many seeds
    otherwise fills the disk; entries in use are at most minutes old)"""
    import shutil, time
    try:
        st = os.statvfs(WORK)
        if st.f_bavail * st.f_frsize / 1e9 > max_free_check_gb: return
        root = os.path.join(WORK, 'build'); now = time.time()
        for sub in os.scandir(root):
            if not sub.is_dir(): continue
            for e in os.scandir(sub.path):
                try:
                    if now - e.stat().st_mtime > max_age_hours * 3600:
                        shutil.rmtree(e.path, ignore_errors=True) if e.is_dir() else os.unlink(e.path)
                except OSError: pass
    except OSError:
        pass
