"""Grammar description shared by generators, the reference models and the C++ emitter.

Symbols in a right side: ('n', i) nonterminal i, ('t', j) term j, ('e',) the error token.
Term kinds: 'c' single char, 's' string, 'r' regex (pattern + optional custom name).
A term may be 'typed' (typed_term with a functor). Associativity: 'n', 'l' (ltor), 'r' (rtol).
Rule functor kinds: 'f' logging functor (>=), 'x' contextual logging functor (>>=),
'd' no functor (default construction)."""
import json, hashlib

class Term:
    __slots__ = ('kind', 'text', 'prec', 'assoc', 'name', 'typed')
    def __init__(self, kind, text, prec=0, assoc='n', name=None, typed=False):
        self.kind = kind; self.text = text; self.prec = prec; self.assoc = assoc; self.name = name; self.typed = typed
    def display(self):
        """the name ctpg prints for this term"""
        if self.kind == 'c':
            c = ord(self.text)
            return self.text if 32 < c < 127 else '\\x%02X' % c
        if self.kind == 's': return self.text
        if self.kind == 'k': return self.name if self.name else self.text
        return self.name if self.name else 'r_' + self.text
    def to_json(self): return {'kind': self.kind, 'text': self.text, 'prec': self.prec, 'assoc': self.assoc, 'name': self.name, 'typed': self.typed}
    @staticmethod
    def from_json(d): return Term(d['kind'], d['text'], d.get('prec', 0), d.get('assoc', 'n'), d.get('name'), d.get('typed', False))

class Rule:
    __slots__ = ('lhs', 'rhs', 'prec', 'ftor')
    def __init__(self, lhs, rhs, prec=None, ftor='f'):
        self.lhs = lhs; self.rhs = tuple(tuple(x) for x in rhs); self.prec = prec; self.ftor = ftor
    def to_json(self): return {'lhs': self.lhs, 'rhs': [list(x) for x in self.rhs], 'prec': self.prec, 'ftor': self.ftor}
    @staticmethod
    def from_json(d): return Rule(d['lhs'], d['rhs'], d.get('prec'), d.get('ftor', 'f'))

class Grammar:
    def __init__(self, nts, terms, rules, root=0, vtypes=None, note=''):
        self.nts = list(nts); self.terms = list(terms); self.rules = list(rules); self.root = root
        self.vtypes = list(vtypes) if vtypes else ['V'] * len(self.nts)   # value kind per nonterminal: 'V','W','I'
        self.note = note
        self.tvtype = 'V'     # value kind returned by typed-term functors
        self.lexspec = None   # custom lexer script: ([term per byte], [length per byte]) or None
        self.ttstate = False  # typed-term functors share one C++ type and differ only in their stored state
        self.limits = None    # user limits (state cap, items-per-state cap) or None for the defaults
        self.rt = False       # construct the parser object at run time only (constant evaluation of the analyser would be too costly)
    # term indices: 0..T-1 user terms, T eof, T+1 error token
    @property
    def T(self): return len(self.terms)
    @property
    def EOF(self): return len(self.terms)
    @property
    def ERR(self): return len(self.terms) + 1
    def tname(self, j):
        if j == self.EOF: return '<eof>'
        if j == self.ERR: return '<error_recovery_token>'
        return self.terms[j].display()
    def symname(self, s):
        if s[0] == 'n': return self.nts[s[1]]
        if s[0] == 'e': return '<error_recovery_token>'
        return self.tname(s[1])
    def symterm(self, s):
        """term index of a right-side symbol, or None for a nonterminal"""
        if s[0] == 't': return s[1]
        if s[0] == 'e': return self.ERR
        return None
    def has_error(self): return any(s[0] == 'e' for r in self.rules for s in r.rhs)
    def text(self):
        out = []
        for r in self.rules:
            rhs = ' '.join(self.symname(s) for s in r.rhs) or 'eps'
            out.append('%s->%s%s' % (self.nts[r.lhs], rhs, '[%d]' % r.prec if r.prec else ''))
        return '; '.join(out)
    def to_json(self):
        return {'nts': self.nts, 'terms': [t.to_json() for t in self.terms], 'rules': [r.to_json() for r in self.rules],
                'root': self.root, 'vtypes': self.vtypes, 'note': self.note, 'tvtype': self.tvtype, 'lexspec': self.lexspec, 'ttstate': self.ttstate, 'limits': list(self.limits) if self.limits else None, 'rt': self.rt}
    @staticmethod
    def from_json(d):
        g = Grammar(d['nts'], [Term.from_json(t) for t in d['terms']], [Rule.from_json(r) for r in d['rules']],
                    d.get('root', 0), d.get('vtypes'), d.get('note', ''))
        g.tvtype = d.get('tvtype', 'V')
        g.lexspec = d.get('lexspec')
        g.ttstate = d.get('ttstate', False)
        g.limits = tuple(d['limits']) if d.get('limits') else None
        g.rt = d.get('rt', False)
        return g
    def key(self):
        d = self.to_json(); d.pop('note', None)
        if d.get('lexspec') is None: d.pop('lexspec', None)
        if not d.get('ttstate'): d.pop('ttstate', None)
        return hashlib.sha256(json.dumps(d, sort_keys=True).encode()).hexdigest()[:16]

def simple(spec, root=None, **kw):
    """Build a char-term grammar from text like 'S->a X; X->Z Y | eps; Z->c'.
    Upper-case-initial words are nonterminals, single characters are char terms, 'error' the error token."""
    nts = []; prods = []
    for part in (spec.split('\n') if '\n' in spec else spec.split(';')):
        part = part.strip()
        if not part: continue
        l, r = part.split('->')
        l = l.strip()
        if l not in nts: nts.append(l)
        for alt in r.split('|'):
            prods.append((l, alt.split()))
    terms = []; tindex = {}
    rules = []
    for l, alt in prods:
        rhs = []
        for w in alt:
            if w == 'eps': continue
            if w == 'error': rhs.append(('e',)); continue
            if w in nts: rhs.append(('n', nts.index(w))); continue
            if w[0].isupper() and len(w) > 1 or (w[0].isupper() and w in [p[0] for p in prods]):
                if w not in nts: nts.append(w)
                rhs.append(('n', nts.index(w))); continue
            if w not in tindex:
                tindex[w] = len(terms); terms.append(Term('c' if len(w) == 1 else 's', w))
            rhs.append(('t', tindex[w]))
        rules.append(Rule(nts.index(l), rhs))
    return Grammar(nts, terms, rules, nts.index(root) if root else 0, **kw)
