"""The grammar pipeline: generate grammars+inputs, build translation units against /repo's tree,
execute, and judge the recorded observations per property with the reference models."""
import random, json, collections, itertools, re, traceback
from . import common, ref_lr1, gen_grammar as gg, emit_grammar as eg, model, diag as dg
from .grammar import Grammar

def tok_bytes(g, toks, rnd=None, ws=0.0, wschars=b' \t\n\r\x0b\x0c'):
    out = bytearray()
    sep = False
    for i, t in enumerate(toks):
        if (rnd and ws and rnd.random() < ws) or sep:
            for _ in range(rnd.choice([1, 1, 2, 3]) if rnd else 1): out.append(rnd.choice(wschars) if rnd else 0x20)
        sep = False
        if t < g.T and g.terms[t].kind == 'r':
            from . import ref_regex as rr
            r2 = rnd or random.Random(len(toks) * 131 + i)
            out += rr.sample_string(rr.parse(g.terms[t].text.encode('latin-1')), r2)
            sep = (i + 1 < len(toks) and (toks[i + 1] == t or r2.random() < 0.5))     # keep adjacent lexemes of the same regex term apart
            continue
        out += g.terms[t].text.encode('latin-1') if t < g.T else b''
    if rnd and ws and rnd.random() < ws: out.append(rnd.choice(wschars))
    return bytes(out)

def case_key(g, data, mode):
    return 'input:' + common.sha(g.key(), data, str(mode))[:16]

def diag_conflict_free(d):
    return not d.has_sr and not d.has_rr

def prepare(spec):
    """grammars, tables, inputs for a batch (deterministic in spec['seed'])"""
    rnd = random.Random(spec['seed'])
    gs = [Grammar.from_json(j) for j in spec['grammars']]
    tbs = [ref_lr1.build(g) for g in gs]
    cfg = spec['cfg']
    inputs = []
    if 'explicit_inputs' in spec:
        return gs, tbs, [[bytes.fromhex(h) for h in lst] for lst in spec['explicit_inputs']]
    for g, tb in zip(gs, tbs):
        cls = gg.classify(tb)
        if cls in ('rr', 'acc'):
            inputs.append([]); continue
        seqs = gg.inputs_for(g, rnd, n_exh_cap=cfg.get('exh_cap', 300), exh_len=cfg.get('exh_len', 5),
                             n_rand=cfg.get('n_rand', 30), n_mut=cfg.get('n_mut', 60), long_targets=tuple(cfg.get('long', (30, 120))))
        datas = []
        for s in seqs:
            datas.append(tok_bytes(g, s))
        for s in seqs[:: max(1, len(seqs) // max(1, cfg.get('n_ws', 20)))]:
            datas.append(tok_bytes(g, s, rnd, ws=cfg.get('ws', 0.4)))
        # a few raw byte strings with foreign characters
        for _ in range(cfg.get('n_raw', 8)):
            alph = ''.join(t.text for t in g.terms) + ' \n?Z\x00\xff'
            datas.append(''.join(rnd.choice(alph) for _ in range(rnd.randint(0, 8))).encode('latin-1'))
        if cfg.get('long_gap') and len(inputs) < cfg['long_gap'] and seqs:
            # one skipped blank run (and, for regex terms, one lexeme) of more than 65535 bytes on a line, followed by more input on that line
            s0 = max(seqs[:40], key=len)
            k = max(1, len(s0) // 2); gap = b' ' * rnd.choice([65536, 70000, 131075])
            datas.append(tok_bytes(g, s0[:k]) + gap + tok_bytes(g, s0[k:]))
            datas.append(tok_bytes(g, s0[:k]) + gap + b'?' + tok_bytes(g, s0[k:]))
            datas.append(tok_bytes(g, s0[:k]) + gap + tok_bytes(g, s0[:1]) * 2 + tok_bytes(g, s0[k:]))
        seen = set(); uniq = []
        for d in datas:
            if cfg.get('max_len') is not None and len(d) > cfg['max_len']: continue
            if d not in seen: seen.add(d); uniq.append(d)
        inputs.append(uniq)
    return gs, tbs, inputs

def worker(spec):
    try:
        return _worker(spec)
    except common.BuildError as e:
        # 1. private names behind the friend hook may have changed: fall back to public-API observations only
        if not spec.get('no_access'):
            try:
                s2 = dict(spec); s2['no_access'] = True
                out = _worker(s2)
                out['counts']['hook_unavailable_batches'] = out['counts'].get('hook_unavailable_batches', 0) + 1
                return out
            except common.BuildError as e2:
                e = e2
            except Exception:
                pass
        # 2. find the grammar whose documented usage no longer compiles
        gl = spec['grammars']
        if len(gl) > 1:
            rtc = set(spec.get('runtime_ctor', ()))
            def one(i, gj):
                s1 = dict(spec, grammars=[gj], runtime_ctor=([0] if i in rtc else []))      # the grammar keeps its construction mode when tried alone
                if 'explicit_inputs' in spec: s1['explicit_inputs'] = [spec['explicit_inputs'][i]]
                return s1
            outs = [worker(one(i, gj)) for i, gj in enumerate(gl)]
            m = {'counts': collections.Counter(), 'viol': [], 'samples': [], 'distinct': [], 'incon': []}
            for o in outs:
                for k, v in o['counts'].items(): m['counts'][k] += v
                for k in ('viol', 'samples', 'distinct', 'incon'): m[k] += o[k]
            return m
        g = Grammar.from_json(gl[0])
        inlib = 'ctpg.hpp' in e.diag
        if inlib:
            return {'counts': {'evaluations': 1}, 'viol': [(['input:' + g.key() + ':compile'], 'grammar %s (value types %s, typed-term values %s): a program using only the documented API no longer compiles: %s' % (
                g.text(), g.vtypes, g.tvtype, e.diag[:500]), {'grammar': g.to_json(), 'diag': e.diag[:2000]})], 'samples': [], 'distinct': [], 'incon': []}
        return {'counts': {}, 'viol': [], 'samples': [], 'distinct': [], 'incon': ['build: ' + e.diag[:1500]]}
    except Exception as e:
        return {'counts': {}, 'viol': [], 'samples': [], 'distinct': [], 'incon': ['worker exception: ' + traceback.format_exc()[-1500:]]}

def _worker(spec):
    prop = spec['prop']; cfg = spec['cfg']
    # grammars needing more states than the default cap are rejected by construction (finding D16, C12's subject): not this property's business
    keep = [i for i, j in enumerate(spec['grammars']) if not ref_lr1.beyond_default_cap(Grammar.from_json(j))]
    dropped = len(spec['grammars']) - len(keep)
    if dropped:
        spec = dict(spec, grammars=[spec['grammars'][i] for i in keep])
        if 'explicit_inputs' in spec: spec['explicit_inputs'] = [spec['explicit_inputs'][i] for i in keep]
        if 'runtime_ctor' in spec: spec['runtime_ctor'] = [keep.index(i) for i in spec['runtime_ctor'] if i in keep]
    if not spec['grammars']:
        return {'counts': collections.Counter({'grammars_beyond_default_state_cap_left_to_C12': dropped}), 'viol': [], 'samples': [], 'distinct': [], 'incon': []}
    out = _worker2(spec)
    if dropped: out['counts']['grammars_beyond_default_state_cap_left_to_C12'] += dropped
    return out

def _worker2(spec):
    prop = spec['prop']; cfg = spec['cfg']
    gs, tbs, inputs = prepare(spec)
    modes = cfg['modes']
    src = eg.emit_tu(gs, runtime_ctor=set(spec.get('runtime_ctor', ())))
    exe = common.build(src, spec.get('flavour', 'clang'), extra=eg.mode_defines(modes) + (['-DVF_NO_ACCESS'] if spec.get('no_access') else []))
    jobs = []
    for gi in range(len(gs)): jobs.append(('D', gi))
    rc0, recs0, dumps, meta0, err0 = eg.run_jobs(exe, jobs, timeout=300)
    out = {'counts': collections.Counter(), 'viol': [], 'samples': [], 'distinct': [], 'incon': []}
    C = out['counts']
    if rc0 != 0 or not meta0['end']:
        out['viol'].append((['site:write_diag_str@crash'], 'diagnostics run failed rc=%s %s' % (rc0, err0[-300:]), {'grammars': spec['grammars']}))
        return out
    diags = {}; maps = {}; tdiffs = {}
    for gi, g in enumerate(gs):
        d = dg.parse_diag(dumps[gi]['diag']); diags[gi] = d
        dp = dg.parse_dump(dumps[gi]['dump']) if 'dump' in dumps[gi] else None
        m, diffs = model.match_tables(g, tbs[gi], d, dp)
        if diffs and diffs[0].startswith('ambiguous symbol names'):
            out['counts']['grammars_with_ambiguous_symbol_names'] += 1; diffs = []      # a term and a nonterminal share a name: the printed table cannot be read back
        maps[gi] = m; tdiffs[gi] = diffs
    # which grammars can be parsed
    jobs = []
    for gi, g in enumerate(gs):
        cls = gg.classify(tbs[gi])
        if cls in ('rr', 'acc') or diags[gi].has_rr: continue
        # a conflict grammar whose table differs from the reference is not parsed at all: neither termination nor anything else
        # is promised there, and the reference cannot predict loops of a different table (the table difference itself is reported)
        if cls != 'lr1' and tdiffs[gi]:
            out['counts']['grammars_not_parsed_table_differs'] += 1; continue
        keep = []
        for idx, data in enumerate(inputs[gi]):
            # grammars with resolved conflicts may loop on some inputs (termination is promised for conflict-free grammars only):
            # inputs on which the reference driver hits its step limit are not run
            if cls != 'lr1' and model.expect(g, tbs[gi], data).res.hang:
                out['counts']['inputs_skipped_reference_step_limit'] += 1; continue
            for mode in modes:
                # grammars with contextual functors are driven through context_parse
                if mode == 0 and prop in ('C05', 'C14') and any(r.ftor == 'x' for r in g.rules): mode = 20
                jobs.append((gi, idx, mode, data))
    rc, recs, _, meta, err = eg.run_jobs(exe, jobs, timeout=cfg.get('timeout', 300))
    byk = {(r.gi, r.idx, r.mode): r for r in recs}
    ctxinfo = {'rc': rc, 'meta': meta, 'err': err[-2000:]}
    JUDGES[prop](spec, gs, tbs, inputs, diags, dumps, maps, tdiffs, byk, jobs, ctxinfo, out)
    return out

# -------------------------------------------------------------------------------------------------
def crash_check(prop, gs, jobs, byk, info, out, site):
    """a run that did not finish or lost records: find the first missing case"""
    if info['rc'] == 0 and info['meta']['end'] and not info['meta']['cvec'] and len(byk) >= len(jobs): return False
    first = next((j for j in jobs if (j[0], j[1], j[2]) not in byk), None)
    if first is None and not info['meta']['cvec']: return False
    g = gs[first[0]] if first else None
    summ = 'run aborted rc=%s timeout=%s cvec=%s at %s input=%r stderr=%s' % (
        info['rc'], info['meta'].get('timeout'), info['meta']['cvec'][:1], g.text() if g else None, first[3] if first else None, info['err'][-400:])
    keys = [case_key(g, first[3], first[2])] if first else []
    out['viol'].append((keys + [site], summ, {'grammar': g.to_json() if g else None, 'input': first[3].hex() if first else None, 'mode': first[2] if first else None}))
    return True

def judge_c01(spec, gs, tbs, inputs, diags, dumps, maps, tdiffs, byk, jobs, info, out):
    C = out['counts']
    crash_check('C01', gs, jobs, byk, info, out, 'site:parse@crash')
    for gi, g in enumerate(gs):
        tb = tbs[gi]; d = diags[gi]
        C['grammars'] += 1
        if not tb.lr1 or not diag_conflict_free(d):
            C['grammars_not_lr1_or_conflict_disagreement'] += (1 if tb.lr1 != diag_conflict_free(d) else 0)
            C['grammars_with_conflicts'] += 1
            continue
        C['grammars_lr1'] += 1
        nontrivial = len(tb.states) >= 6
        if tdiffs[gi]:
            out['viol'].append((['input:' + g.key() + ':table'], 'LR(1) grammar %s: table differs from reference: %s' % (g.text(), '; '.join(tdiffs[gi][:3])),
                                {'grammar': g.to_json(), 'diffs': tdiffs[gi][:10]}))
        C['states_compared'] += len(tb.states)
        acc = 0
        for idx, data in enumerate(inputs[gi]):
            r = byk.get((gi, idx, 0))
            if r is None: continue
            ex = model.expect(g, tb, data)
            C['evaluations'] += 1
            acc += ex.ok
            if nontrivial: out['distinct'].append(common.sha(g.key(), data)[:12])
            if (r.res == 1) != ex.ok:
                out['viol'].append(([case_key(g, data, 0)], 'grammar %s input %r: parse %s, grammar says %s' % (
                    g.text(), data, 'accepted' if r.res == 1 else 'rejected(%d)' % r.res, 'derivable' if ex.ok else 'not derivable'),
                    {'grammar': g.to_json(), 'input': data.hex(), 'mode': 0, 'observed': r.res, 'expected': ex.ok}))
        C['accepted_inputs'] += acc
        if len(out['samples']) < 2 and inputs[gi]:
            out['samples'].append({'grammar': g.text(), 'inputs': len(inputs[gi]), 'accepted': acc, 'example_input': inputs[gi][-1].decode('latin-1')})


def parseable(gi, gs, tbs, diags, tdiffs, need_match=True, lr1_only=False):
    tb = tbs[gi]
    if gg.classify(tb) in ('rr', 'acc') or diags[gi].has_rr: return False
    if lr1_only and (not tb.lr1 or not diag_conflict_free(diags[gi])): return False
    if need_match and tdiffs[gi]: return False
    return True

def viol(out, g, data, mode, summary, extra_keys=(), **rep):
    rep.update({'grammar': g.to_json(), 'input': data.hex() if data is not None else None, 'mode': mode})
    keys = ([case_key(g, data, mode)] if data is not None else ['input:' + g.key()]) + list(extra_keys)
    shown = data if data is None or len(data) <= 120 else data[:60] + b'...(%d bytes)...' % len(data) + data[-30:]
    out['viol'].append((keys, ('grammar %s input %r mode %s: ' % (g.text(), shown, mode)) + summary, rep))

_COPYEV = re.compile(r'C-?\d+;|s\d+:\d+;')      # copy events and the call counters of stateful functors are judged separately
_STATEEV = re.compile(r's(\d+):(\d+);')

def judge_c02(spec, gs, tbs, inputs, diags, dumps, maps, tdiffs, byk, jobs, info, out):
    C = out['counts']
    crash_check('C02', gs, jobs, byk, info, out, 'site:parse@crash')
    for gi, g in enumerate(gs):
        C['grammars'] += 1
        if not parseable(gi, gs, tbs, diags, tdiffs, need_match=False): C['grammars_skipped'] += 1; continue
        tb = tbs[gi]
        for idx, data in enumerate(inputs[gi]):
          ex = None
          for mode in (0, 3, 4):       # string_buffer, exact-size string_view_buffer, user buffer: the lexemes and values must not depend on the buffer kind
            r = byk.get((gi, idx, mode))
            if r is None: continue
            if ex is None: ex = model.expect(g, tb, data)
            if ex.res.hang: continue
            C['evaluations'] += 1
            if r.res == -1 and ex.ok:
                # not a plain rejection: the evaluation of an accepted input was abandoned by an exception out of the value plumbing
                viol(out, g, data, mode, 'accepted input: evaluation abandoned by %s after the calls %s' % (r.extra[:120], model.mask_positions(r.events)[-200:])); continue
            if r.res == 1 and not ex.ok:
                # a value was returned for an input that has no derivation tree at all
                viol(out, g, data, mode, 'a result was returned although the input has no derivation (calls %s)' % model.mask_positions(r.events)[-200:]); continue
            if (r.res == 1) != ex.ok: C['acceptance_disagreements_left_to_C01'] += 1; continue
            got = model.mask_positions(_COPYEV.sub('', r.events)); want = model.mask_positions(ex.events)
            C['functor_calls_observed'] += got.count(';')
            if ex.ok:
                C['accepted'] += 1
                if len(ex.res.reductions) >= 3: out['distinct'].append(common.sha(g.key(), data)[:12])
            # a functor with state of its own: within one parse its call counter goes up by one per call (the stored object is called, not a copy)
            seq = {}
            for rr_, n_ in _STATEEV.findall(r.events): seq.setdefault(rr_, []).append(int(n_))
            for rr_, ns in seq.items():
                C['stateful_functor_calls_observed'] += len(ns)
                if any(b - a != 1 for a, b in zip(ns, ns[1:])):
                    viol(out, g, data, mode, 'the functor object of rule %s keeps a call counter; within this parse it reported %s instead of consecutive numbers (a copy of the functor was called)' % (rr_, ns[:8]))
                    break
            if got != want:
                viol(out, g, data, mode, 'functor call log differs from bottom-up evaluation of the derivation tree: observed %s expected %s' % (got[:300], want[:300]), observed=got, expected=want)
            elif ex.ok and r.root != ex.root:
                viol(out, g, data, mode, 'returned root value id %s, expected %s (last reduction of the root)' % (r.root, ex.root))
        if len(out['samples']) < 2 and inputs[gi]:
            d = next((d for d in inputs[gi] if model.expect(g, tb, d).ok and len(d) > 3), inputs[gi][0])
            out['samples'].append({'grammar': g.text(), 'vtypes': g.vtypes, 'input': d.decode('latin-1'), 'expected_log': model.expect(g, tb, d).events[:400]})

def judge_c09(spec, gs, tbs, inputs, diags, dumps, maps, tdiffs, byk, jobs, info, out):
    C = out['counts']
    crash_check('C09', gs, jobs, byk, info, out, 'site:parse@crash')
    for gi, g in enumerate(gs):
        C['grammars'] += 1
        # the messages do not depend on how the diagnostics print the table: judge every grammar that is LR(1) for the reference and
        # shows no conflict line, even if its printed table differs from the reference (a wrong table also yields wrong reports)
        if g.has_error() or not parseable(gi, gs, tbs, diags, tdiffs, need_match=False, lr1_only=True): C['grammars_skipped'] += 1; continue
        tb = tbs[gi]
        for idx, data in enumerate(inputs[gi]):
            exs = {}
            for mode, opt in ((0, (True, True)), (3, (True, True)), (4, (True, True)), (8, (True, False)), (9, (False, False))):
                r = byk.get((gi, idx, mode))
                if r is None: continue
                if opt not in exs: exs[opt] = model.expect(g, tb, data, skip_ws=opt[0], skip_nl=opt[1])
                ex = exs[opt]
                C['evaluations'] += 1
                if (r.res == 1) != ex.ok:
                    # "returns an empty optional exactly when the input is not in the language" is part of this property
                    viol(out, g, data, mode, 'parse %s but the input is %s the language; stream text %r' % ('returned a value' if r.res == 1 else 'returned nothing (%d %s)' % (r.res, r.extra[:60]), 'not in' if not ex.ok else 'in', r.stream[:120]))
                    continue
                kind = 'accepted' if ex.ok else ('lexical' if ex.res.lexerr is not None else 'syntax')
                C['inputs_' + kind] += 1
                if not ex.ok: out['distinct'].append(common.sha(g.key(), data)[:12])
                if r.stream != ex.stream:
                    viol(out, g, data, mode, '%s input: stream text %r, expected %r' % (kind, r.stream[:200], ex.stream[:200]), observed=r.stream, expected=ex.stream)
                # (with string or regex terms the longest-match lexer has to read until its automaton dies, possibly well past the lexeme it falls back to:
                #  the bound below is exact for grammars whose terms are all single characters)
                if mode == 4 and kind == 'syntax' and ex.res.errors and all(t.kind == 'c' for t in g.terms):
                    p = ex.res.errors[0]
                    if p < len(ex.lex.toks):
                        limit = ex.lex.toks[p][1] + ex.lex.toks[p][2]      # one look-ahead byte after the offending lexeme
                        C['lookahead_bounds_checked'] += 1
                        if r.cb[5] > limit:
                            viol(out, g, data, mode, 'input examined up to offset %d although the offending term ends at %d' % (r.cb[5], limit))
        if len(out['samples']) < 2 and inputs[gi]:
            for d in inputs[gi]:
                e = model.expect(g, tb, d)
                if not e.ok and len(d) > 2:
                    out['samples'].append({'grammar': g.text(), 'input': d.decode('latin-1'), 'expected_stream': e.stream}); break

def judge_c10(spec, gs, tbs, inputs, diags, dumps, maps, tdiffs, byk, jobs, info, out):
    C = out['counts']
    crash_check('C10', gs, jobs, byk, info, out, 'site:parse@crash')
    OPT = {0: (True, True), 3: (True, True), 4: (True, True), 7: (False, True), 8: (True, False), 9: (False, False)}     # 3: string_view_buffer (raw pointer iterators), 4: user buffer
    for gi, g in enumerate(gs):
        C['grammars'] += 1
        if not parseable(gi, gs, tbs, diags, tdiffs, need_match=False): C['grammars_skipped'] += 1; continue
        tb = tbs[gi]
        for idx, data in enumerate(inputs[gi]):
            for mode, (sw, sn) in OPT.items():
                r = byk.get((gi, idx, mode))
                if r is None: continue
                ex = model.expect(g, tb, data, skip_ws=sw, skip_nl=sn)
                if ex.res.hang: continue
                C['evaluations'] += 1
                if (r.res == 1) != ex.ok or model.mask_positions(_COPYEV.sub('', r.events)) != model.mask_positions(ex.events):
                    C['non_position_disagreements_left_to_C01_C02_C04'] += 1; continue
                gp = model.positions(r.events); wp = model.positions(ex.events)
                C['term_positions_observed'] += len(gp)
                if any(l > 1 for _, l, _ in wp): out['distinct'].append(common.sha(g.key(), data, str(mode))[:12])
                if gp != wp:
                    k = next(i for i in range(min(len(gp), len(wp))) if gp[i] != wp[i]) if len(gp) == len(wp) else -1
                    viol(out, g, data, mode, 'source points differ: observed %s expected %s' % (gp[k] if k >= 0 else gp[:5], wp[k] if k >= 0 else wp[:5]))
                gm = re.findall(r'(?m)^\[(\d+):(\d+)\]', r.stream); wm = re.findall(r'(?m)^\[(\d+):(\d+)\]', ex.stream)
                C['message_positions_observed'] += len(gm)
                if gm != wm:
                    viol(out, g, data, mode, 'message positions differ: observed %s expected %s' % (gm[:4], wm[:4]))
        if len(out['samples']) < 2 and inputs[gi]:
            d = max(inputs[gi], key=lambda d: d.count(b'\n'))
            out['samples'].append({'grammar': g.text(), 'input': d.decode('latin-1'), 'expected_positions': model.positions(model.expect(g, tb, d).events)[:8]})

D17_KEY = 'site:value_stack@growth-copies-values-with-throwing-move'
_ARGID = re.compile(r'v(-?\d+)[,&]')
def judge_c14(spec, gs, tbs, inputs, diags, dumps, maps, tdiffs, byk, jobs, info, out):
    C = out['counts']
    crash_check('C14', gs, jobs, byk, info, out, 'site:parse@crash')
    for gi, g in enumerate(gs):
        C['grammars'] += 1
        if not parseable(gi, gs, tbs, diags, tdiffs, need_match=False): C['grammars_skipped'] += 1; continue
        tb = tbs[gi]
        for idx, data in enumerate(inputs[gi]):
          for r in [byk.get((gi, idx, m_)) for m_ in (0, 11, 20, 25)]:
            if r is None or r.res == -2: continue
            C['evaluations'] += 1
            if r.mode == 11: C['runs_on_fixed_size_stacks'] += 1
            if r.mode in (20, 25): C['runs_through_context_parse'] += 1
            nvals = r.events.count('=')
            C['values_tracked'] += nvals
            path = 'success' if r.res == 1 else ('recovery' if '] PARSE: Syntax error' in r.stream and g.has_error() else 'failure')
            C['runs_' + path] += 1
            if nvals >= 2: out['distinct'].append(common.sha(g.key(), data)[:12])
            ids = _ARGID.findall(r.events)
            probs = []
            if r.res == -1 and 'capacity' in r.extra:
                C['fixed_stack_capacity_exceeded_left_to_C12'] += 1; continue       # the recorded stack-capacity finding (D6) is C07/C12's subject
            if r.res == -1: probs.append('parse threw %s (a value was looked up in the wrong slot)' % r.extra[:80])
            if r.objs_alive != 0: probs.append('%d tracked objects not destroyed after the parse' % r.objs_alive)
            if r.payload_live != 0: probs.append('%d values still owned after the result was dropped (leak or double release)' % r.payload_live)
            if r.copies != 0 or 'C' in r.events: probs.append('%d copies of semantic values made by the library' % r.copies)
            if any(i.startswith('-') for i in ids): probs.append('a moved-from value was handed to a functor')
            if '&' in r.events: probs.append('a value was handed to a functor as a non-movable reference')
            if len(set(ids)) != len(ids): probs.append('a value was consumed by two functor calls')
            if probs:
                # recorded finding D17: std::vector growth of the run-time value stack copies the pending values when a value type has a
                # potentially throwing move constructor; applies only to such grammars, to parses that need more than the reserved 1024 stack
                # entries, and only when copies are the sole symptom
                d17 = (len(probs) == 1 and probs[0].endswith('copies of semantic values made by the library') and 'X' in g.vtypes and r.mode == 0
                       and model.expect(g, tb, data).res.maxdepth > 1024)
                viol(out, g, data, r.mode, '; '.join(probs) + ' (log %s)' % r.events[:300], observed=r.events, extra_keys=([D17_KEY] if d17 else []))
        if len(out['samples']) < 2 and inputs[gi]:
            r = byk.get((gi, len(inputs[gi]) - 1, 0))
            if r: out['samples'].append({'grammar': g.text(), 'vtypes': g.vtypes, 'input': inputs[gi][-1].decode('latin-1'), 'log': r.events[:300], 'objs_alive': r.objs_alive, 'copies': r.copies})

def lines_subsequence(short, long):
    it = iter(long.split('\n'))
    return all(any(l == m for m in it) for l in short.split('\n') if l)

def judge_c16(spec, gs, tbs, inputs, diags, dumps, maps, tdiffs, byk, jobs, info, out):
    C = out['counts']
    crash_check('C16', gs, jobs, byk, info, out, 'site:parse@crash')
    for gi, g in enumerate(gs):
        C['grammars'] += 1
        if not parseable(gi, gs, tbs, diags, tdiffs) or maps[gi] is None: C['grammars_skipped'] += 1; continue
        tb = tbs[gi]
        inv = {v: k for k, v in maps[gi].items()}
        for idx, data in enumerate(inputs[gi]):
            rs = {m: byk.get((gi, idx, m)) for m in (0, 1, 2, 5, 6)}
            if any(v is None for v in rs.values()): continue
            C['evaluations'] += 1
            base = rs[0]
            for m in (1, 2, 5, 6):
                r = rs[m]
                if (r.res, r.root, r.events) != (base.res, base.root, base.events):
                    viol(out, g, data, m, 'outcome depends on verbosity/stream: mode %d gives (%s,%s,%s) but plain run gives (%s,%s,%s)' % (
                        m, r.res, r.root, r.events[:120], base.res, base.root, base.events[:120]))
            # verbose switched on in the middle of a chain of setters on a named options object: the other options must still take effect
            for mv, mq in ((12, 8), (13, 9)):
                rv = byk.get((gi, idx, mv)); rq = byk.get((gi, idx, mq))
                if rv is None or rq is None: continue
                C['chained_option_setters_compared'] += 1
                if (rv.res, rv.root, rv.events) != (rq.res, rq.root, rq.events):
                    viol(out, g, data, mv, 'outcome depends on verbosity: options chained as %s give (%s,%s,%s), the same options without verbose give (%s,%s,%s)' % (
                        'set_verbose().set_skip_newline(false)' if mv == 12 else 'set_skip_whitespace(false).set_verbose().set_skip_newline(false)', rv.res, rv.root, rv.events[:120], rq.res, rq.root, rq.events[:120]))
            if rs[6].stream != base.stream: viol(out, g, data, 6, 'user stream text %r differs from std::ostream text %r' % (rs[6].stream[:200], base.stream[:200]))
            if rs[5].stream != rs[1].stream: viol(out, g, data, 5, 'verbose user stream text differs from verbose std::ostream text')
            if not lines_subsequence(base.stream, rs[1].stream):
                viol(out, g, data, 1, 'non-verbose messages %r do not appear unchanged in the verbose text' % base.stream[:200])
            ex = model.expect(g, tb, data, state_map=inv)
            if ex.res.hang or (base.res == 1) != ex.ok: continue
            tr = dg.parse_trace(rs[1].stream)
            other = [e for e in tr if e[0] == 'other']
            acts = []
            for e in tr:
                if e[0] in ('rec', 'lex', 'unexp'): continue
                if e[0] == 'sh': acts.append(('sh', e[1], e[2]))
                elif e[0] == 'red': acts.append(('red', e[1]))
                elif e[0] == 'syntax': acts.append(('syntax', e[1]))
                elif e[0] == 'consume': acts.append(('consume', e[1]))
                elif e[0] == 'leave-cons': continue
                else: acts.append(tuple(e[:2]) if len(e) > 1 else e)
            want = [a for a in ex.trace]
            C['trace_events_observed'] += len(acts)
            if len(acts) >= 6: out['distinct'].append(common.sha(g.key(), data)[:12])
            if other:
                viol(out, g, data, 1, 'unparseable verbose line %r' % (other[0][1][:120],))
            elif acts != want:
                k = next((i for i in range(min(len(acts), len(want))) if acts[i] != want[i]), min(len(acts), len(want)))
                viol(out, g, data, 1, 'verbose trace differs from the actions of the reference driver at event %d: observed %s expected %s' % (
                    k, acts[k:k + 3], want[k:k + 3]), observed=acts[:60], expected=want[:60])
            # reductions in the trace == functor log
            rlog = [int(x) for x in re.findall(r'(?:^|;)[rx](\d+)[\[(]', base.events)]
            rtrace = [a[1] for a in acts if a[0] == 'red' and (g.rules[a[1]].ftor in ('f', 'x') or g.rules[a[1]].ftor[0] == 'c')] if all(a[0] != 'red' or a[1] < len(g.rules) for a in acts) else None
            if rtrace is not None and rlog != rtrace:
                viol(out, g, data, 1, 'reductions in the verbose trace %s differ from the functor calls %s' % (rtrace[:20], rlog[:20]))
            # recognised terms: every Recognized line names the pending term at its position
            recs = [(e[1], e[2], e[3]) for e in tr if e[0] == 'rec']
            coll = [x for i, x in enumerate(recs) if i == 0 or recs[i - 1] != x]
            lx = ex.lex; need = ex.res.maxp
            wantrec = []
            for p in range(min(need, len(lx.toks) - 1) + 1 if lx.toks else 0):
                t = lx.toks[p]; wantrec.append((g.tname(t[0]), t[3], t[4]))
            if need >= len(lx.toks) and lx.lexerr is None: wantrec.append(('<eof>', lx.eof[1], lx.eof[2]))
            if coll != wantrec:
                viol(out, g, data, 1, 'recognised terms in the verbose trace %s differ from the terms at those positions %s' % (coll[:6], wantrec[:6]))
        if len(out['samples']) < 2 and inputs[gi]:
            r = byk.get((gi, 0, 1))
            if r: out['samples'].append({'grammar': g.text(), 'input': inputs[gi][0].decode('latin-1'), 'verbose_text': r.stream[:400]})

KIND_OF = {'acc': 1, 'sh': 2, 'red': 4, 'rr': 5, 'sr-red': 4, 'sr-sh': 2}
def judge_c11(spec, gs, tbs, inputs, diags, dumps, maps, tdiffs, byk, jobs, info, out):
    C = out['counts']
    crash_check('C11', gs, jobs, byk, info, out, 'site:parse@crash')
    for gi, g in enumerate(gs):
        tb = tbs[gi]; d = diags[gi]; cls = gg.classify(tb)
        C['grammars'] += 1; C['grammars_' + cls] += 1
        C['evaluations'] += 1
        C['states_compared'] += len(tb.states); C['conflict_cells_in_reference'] += len(tb.conflicts)
        if tb.conflicts or len(tb.states) >= 6: out['distinct'].append(g.key())
        if d.unparsed:
            viol(out, g, None, None, 'diagnostic line not understood: %r' % d.unparsed[0][:100])
        for df in tdiffs[gi]:
            if df.startswith('acc-conflict'):
                viol(out, g, None, None, 'reduce/accept conflict not reported: ' + df, extra_keys=['site:state_analyzer::transitions@success-shadows-reduce'])
            else:
                viol(out, g, None, None, 'diagnostics differ from the reference LR(1) analysis: ' + df, diffs=tdiffs[gi][:10])
                break
        # (b) diag text == raw table (hook dump)
        if gi in dumps and 'dump' in dumps[gi]:
            dp = dg.parse_dump(dumps[gi]['dump'])
            K = dp.k; nn = K['nterm_count']
            names = {}
            for i, n in enumerate(g.nts): names[n] = i
            names['##'] = len(g.nts)
            tn = {g.tname(t): nn + t for t in range(g.T + 2)}
            for st in d.states:
                for nm, j in st['goto'].items():
                    C['cells_checked_against_raw_table'] += 1
                    cell = dp.cells.get((st['idx'], names.get(nm, -1)))
                    if cell is None or cell[0] not in (2, 3) or cell[1] != j:
                        viol(out, g, None, None, 'state %d: diagnostics say goto %d on %s, raw table has %s' % (st['idx'], j, nm, cell))
                for nm, a in st['act'].items():
                    C['cells_checked_against_raw_table'] += 1
                    cell = dp.cells.get((st['idx'], tn.get(nm, -1)))
                    ok = cell is not None
                    if ok:
                        kind, arg, sr = cell
                        if a[0] == 'sh': ok = kind in (2, 3) and arg == a[1] and not sr
                        elif a[0] == 'red': ok = kind == 4 and dp.ri[arg][1] == a[1] and not sr
                        elif a[0] == 'acc': ok = kind == 1
                        elif a[0] == 'rr': ok = kind == 5
                        elif a[0] == 'sr-red': ok = kind == 4 and dp.ri[arg][1] == a[1] and sr
                        elif a[0] == 'sr-sh': ok = kind in (2, 3) and sr
                    if not ok:
                        viol(out, g, None, None, 'state %d on %s: diagnostics say %s, raw table has %s' % (st['idx'], nm, a, cell))
                listed = sum(len(st['goto']) + len(st['act']) for st in d.states if st['idx'] == st['idx'])
            nonerr = sum(1 for (s_, y), c in dp.cells.items() if c[0] != 0)
            listed = sum(len(st['goto']) + len(st['act']) for st in d.states)
            if nonerr != listed:
                viol(out, g, None, None, 'raw table has %d non-error cells, diagnostics list %d' % (nonerr, listed))
            if d.header.get('states') != K['state_count'] or len(d.states) != K['state_count']:
                viol(out, g, None, None, 'state count in diagnostics %s/%d, raw %d' % (d.header.get('states'), len(d.states), K['state_count']))
        else:
            C['hook_unavailable'] += 1
        # (c) the actions a real parse executes are the ones the diagnostics list
        if not parseable(gi, gs, tbs, diags, tdiffs, need_match=False): continue
        lib = {s['idx']: s for s in d.states}
        for idx, data in enumerate(inputs[gi]):
            r = byk.get((gi, idx, 1))
            if r is None: continue
            C['traces_replayed_on_diagnostics'] += 1
            tr = dg.parse_trace(r.stream)
            stack = [0]; cur = None; bad = None; rec = False
            ERRN = '<error_recovery_token>'
            for e in tr:
                la = ERRN if rec else cur
                if e[0] == 'rec': cur = e[1]
                elif e[0] == 'enter-rec': rec = True
                elif e[0] == 'leave-rec': rec = False
                elif e[0] == 'sh':
                    a = lib[stack[-1]]['act'].get(la)
                    if a is None or a[0] not in ('sh', 'sr-sh') or (a[0] == 'sh' and a[1] != e[1]):
                        bad = 'shift to %d on %s in state %d, diagnostics list %s' % (e[1], la, stack[-1], a); break
                    stack.append(e[1])
                elif e[0] == 'red':
                    a = lib[stack[-1]]['act'].get(la)
                    if a is None or a[0] not in ('red', 'sr-red') or a[1] != e[1]:
                        bad = 'reduce by %d on %s in state %d, diagnostics list %s' % (e[1], la, stack[-1], a); break
                    n = len(g.rules[e[1]].rhs) if e[1] < len(g.rules) else 1
                    if n: del stack[-n:]
                    pend = g.nts[g.rules[e[1]].lhs]
                elif e[0] == 'goto':
                    j = lib[stack[-1]]['goto'].get(pend)
                    if j != e[1]:
                        bad = 'go to %d on %s in state %d, diagnostics list %s' % (e[1], pend, stack[-1], j); break
                    stack.append(e[1])
                elif e[0] == 'pop':
                    stack.pop()
                    if not stack or stack[-1] != e[1]:
                        bad = 'recovering to state %d but the stack top is %s' % (e[1], stack[-1:]); break
                elif e[0] == 'acc':
                    a = lib[stack[-1]]['act'].get(la)
                    if a != ('acc',): bad = 'success on %s in state %d, diagnostics list %s' % (la, stack[-1], a); break
                elif e[0] in ('syntax', 'consume'):
                    a = lib[stack[-1]]['act'].get(la)
                    if a is not None: bad = '%s on %s in state %d although diagnostics list %s' % (e[0], la, stack[-1], a); break
            if bad:
                viol(out, g, data, 1, 'executed action not in the diagnostics: ' + bad)
        if len(out['samples']) < 2:
            out['samples'].append({'grammar': g.text(), 'class': cls, 'reference_conflicts': [(k, v['kind'], v['prefer']) for k, v in list(tb.conflicts.items())[:4]],
                                   'diag_conflict_lines': [(s['idx'], nm, a) for s in d.states for nm, a in s['act'].items() if a[0] in ('rr', 'sr-red', 'sr-sh')][:4]})


def trace_actions(tr):
    acts = []
    for e in tr:
        if e[0] in ('rec', 'lex', 'unexp', 'leave-cons'): continue
        if e[0] == 'sh': acts.append(('sh', e[1], e[2]))
        elif e[0] == 'red': acts.append(('red', e[1]))
        elif e[0] in ('syntax', 'consume'): acts.append((e[0], e[1]))
        else: acts.append(tuple(e[:2]) if len(e) > 1 else e)
    return acts

_EV = re.compile(r'([rxD])(\d+)(?:\[[^\]]*\])?\(([^)]*)\)=(\d+);|t(\d+):(\d+):(\d+)=(\d+);')
def tree_from_events(events):
    """rebuild the evaluation forest from a functor log: id -> (kind, rule, [children]); children are ids or term descriptors"""
    nodes = {}; last = None
    for m in _EV.finditer(events):
        if m.group(1):
            kids = []
            for a in m.group(3).split(','):
                if not a: continue
                if a[0] in 'vi' and a[1:].lstrip('-').isdigit(): kids.append(('id', int(a[1:])))
                else: kids.append(('t', a))
            nodes[int(m.group(4))] = (m.group(1), int(m.group(2)), kids); last = int(m.group(4))
        else:
            nodes[int(m.group(8))] = ('t', int(m.group(5)), [('lex', int(m.group(6)), int(m.group(7)))])
    return nodes, last

def infix_shape(nodes, root):
    """fully parenthesised rendering by term columns (for one-nonterminal expression grammars); iterative, inputs can be deep"""
    out = {}
    stack = [(root, False)]
    while stack:
        i, done = stack.pop()
        kind, rule, kids = nodes[i]
        if not done:
            stack.append((i, True))
            for k in kids:
                if k[0] == 'id' and k[1] not in out: stack.append((k[1], False))
        else:
            parts = []
            for k in kids:
                if k[0] == 'id': parts.append(out[k[1]])
                else: parts.append(k[1].split(':')[1] if ':' in k[1] else k[1])
            out[i] = '(' + ' '.join(parts) + ')'
    return out[root]

def shunting_shape(g, toks, cols):
    """operator-precedence grouping, independent of LR tables, for grammars E->E op E | atom | ( E ) without explicit rule precedence.
    top-of-stack operator o1 versus incoming o2: reduce iff prec(o1) > prec(o2) or equal and o1 is left-associative"""
    binop = {}; atom = None; lp = rp = None
    for r in g.rules:
        if len(r.rhs) == 3 and r.rhs[0][0] == 'n' and r.rhs[2][0] == 'n': binop[r.rhs[1][1]] = True
        elif len(r.rhs) == 1: atom = r.rhs[0][1]
        elif len(r.rhs) == 3: lp, rp = r.rhs[0][1], r.rhs[2][1]
    out = []; ops = []
    def reduce_top():
        o, c = ops.pop(); b = out.pop(); a = out.pop(); out.append('(%s %s %s)' % (a, c, b))
    for t, c in zip(toks, cols):
        if t == atom: out.append('(%d)' % c)
        elif t == lp: ops.append(('(', c))
        elif t == rp:
            while ops and ops[-1][0] != '(': reduce_top()
            o, c0 = ops.pop(); inner = out.pop(); out.append('(%d %s %d)' % (c0, inner, c))
        else:
            while ops and ops[-1][0] != '(':
                o1 = ops[-1][0]; p1, p2 = g.terms[o1].prec, g.terms[t].prec
                if p1 > p2 or (p1 == p2 and g.terms[o1].assoc == 'l'): reduce_top()
                else: break
            ops.append((t, c))
    while ops: reduce_top()
    return out[0] if len(out) == 1 else None

def is_pure_binary(g):
    """E -> E op E (each operator once) | atom | ( E ) with pairwise different terms and no explicit rule precedence"""
    if len(g.nts) != 1 or any(r.prec for r in g.rules): return False
    ops = []; atoms = []; parens = []
    for r in g.rules:
        k = [s[0] for s in r.rhs]
        if k == ['t']: atoms.append(r.rhs[0][1])
        elif k == ['n', 't', 'n']: ops.append(r.rhs[1][1])
        elif k == ['t', 'n', 't']: parens.append((r.rhs[0][1], r.rhs[2][1]))
        else: return False
    if len(atoms) != 1 or len(parens) > 1 or not ops: return False
    used = ops + atoms + [t for p in parens for t in p]
    return len(set(used)) == len(used)

def judge_c05(spec, gs, tbs, inputs, diags, dumps, maps, tdiffs, byk, jobs, info, out):
    C = out['counts']
    crash_check('C05', gs, jobs, byk, info, out, 'site:parse@crash')
    for gi, g in enumerate(gs):
        tb = tbs[gi]; cls = gg.classify(tb)
        C['grammars'] += 1
        if cls in ('rr', 'acc') or diags[gi].has_rr: C['grammars_skipped_rr'] += 1; continue
        nsr = sum(1 for c in tb.conflicts.values() if c['kind'] == 'sr')
        C['sr_conflict_cells'] += nsr
        C['sr_resolved_reduce'] += sum(1 for c in tb.conflicts.values() if c['prefer'] == 'reduce')
        C['cells_compared'] += len(tb.states) * (g.T + 2)
        if tdiffs[gi]:
            viol(out, g, None, None, 'parse table differs from the documented resolution: ' + '; '.join(tdiffs[gi][:3]), diffs=tdiffs[gi][:10],
                 terms=[(t.text, t.prec, t.assoc) for t in g.terms])
            continue
        pure = is_pure_binary(g)
        if pure: C['pure_binary_grammars'] += 1
        for idx, data in enumerate(inputs[gi]):
            r = byk.get((gi, idx, 0)) or byk.get((gi, idx, 20))
            if r is None: continue
            ex = model.expect(g, tb, data)
            if ex.res.hang: continue
            C['evaluations'] += 1
            if r.mode == 20: C['parses_through_context_parse'] += 1
            if nsr and ex.ok and len(ex.res.reductions) >= 4: out['distinct'].append(common.sha(g.key(), data)[:12])
            got = model.mask_positions(_COPYEV.sub('', r.events)); want = model.mask_positions(ex.events)
            if (r.res == 1) != ex.ok or got != want:
                viol(out, g, data, 0, 'result/derivation differs from the reference with the documented conflict resolution: observed (%s) %s expected (%s) %s' % (r.res, got[:200], ex.ok, want[:200]),
                     terms=[(t.text, t.prec, t.assoc) for t in g.terms])
                continue
            if pure and ex.ok and ex.lex.lexerr is None:
                nodes, root = tree_from_events(r.events)
                shape = infix_shape(nodes, r.root) if r.root in nodes else None
                want_shape = shunting_shape(g, [t[0] for t in ex.lex.toks], [t[4] for t in ex.lex.toks])
                C['groupings_checked_by_operator_precedence'] += 1
                if shape != want_shape:
                    viol(out, g, data, 0, 'expression grouped as %s, operator precedence/associativity gives %s' % (str(shape)[:200], str(want_shape)[:200]),
                         terms=[(t.text, t.prec, t.assoc) for t in g.terms])
        if len(out['samples']) < 2 and nsr:
            out['samples'].append({'grammar': g.text(), 'terms': [(t.text, t.prec, t.assoc) for t in g.terms], 'sr_cells': nsr,
                                   'resolutions': [(k, v['prefer'], v['reduces']) for k, v in list(tb.conflicts.items())[:5]]})

def judge_c08(spec, gs, tbs, inputs, diags, dumps, maps, tdiffs, byk, jobs, info, out):
    C = out['counts']
    crash_check('C08', gs, jobs, byk, info, out, 'site:parse@crash')
    for gi, g in enumerate(gs):
        C['grammars'] += 1
        if g.has_error() and tdiffs[gi] and not (gg.classify(tbs[gi]) in ('rr', 'acc') or diags[gi].has_rr):
            # the error symbol is an ordinary term (precedence 0, no associativity) for the table construction: which state shifts it
            # and which reduces first is decided there, so a table that differs changes the recovery
            C['tables_differing'] += 1
            viol(out, g, None, None, 'table of a grammar with error rules differs from the reference construction: ' + '; '.join(tdiffs[gi][:3]))
            continue
        if not g.has_error() or not parseable(gi, gs, tbs, diags, tdiffs) or maps[gi] is None: C['grammars_skipped'] += 1; continue
        tb = tbs[gi]; inv = {v: k for k, v in maps[gi].items()}
        for idx, data in enumerate(inputs[gi]):
            r0 = byk.get((gi, idx, 0)); r1 = byk.get((gi, idx, 1))
            if r0 is None or r1 is None: continue
            ex = model.expect(g, tb, data, state_map=inv)
            if ex.res.hang: C['reference_step_limit'] += 1; continue
            C['evaluations'] += 1
            nerr = len(ex.res.errors)
            C['syntax_errors_in_inputs'] += nerr
            if nerr: out['distinct'].append(common.sha(g.key(), data)[:12])
            if nerr and ex.ok: C['recovered_parses'] += 1
            if nerr and not ex.ok: C['failed_recoveries'] += 1
            C['states_popped'] += len(ex.res.popped); C['terms_discarded'] += len(ex.res.consumed_in_recovery)
            got = model.mask_positions(_COPYEV.sub('', r0.events)); want = model.mask_positions(ex.events)
            if (r0.res == 1) != ex.ok:
                viol(out, g, data, 0, 'with %d syntax error(s): parse %s, the documented recovery algorithm %s' % (nerr, 'succeeded' if r0.res == 1 else 'failed', 'succeeds' if ex.ok else 'fails'))
                continue
            if got != want:
                viol(out, g, data, 0, 'values kept/discarded differ from the documented recovery: observed %s expected %s' % (got[:250], want[:250])); continue
            if r0.stream != ex.stream:
                viol(out, g, data, 0, 'error reports differ: observed %r expected %r' % (r0.stream[:200], ex.stream[:200])); continue
            # the same recovery through the fixed-size stacks of cstring_buffer (short texts): same outcome, and no capacity exception where the
            # documented capacity N + (empty rules) + 1 suffices (beyond it: recorded finding D6, C12's subject)
            r11 = byk.get((gi, idx, 11))
            if r11 is not None and r11.res != -3:
                C['recoveries_through_cstring_buffer'] += 1
                if r11.res == -1 and 'capacity' in r11.extra:
                    cap = (len(data) + 1) + sum(1 for r_ in g.rules if len(r_.rhs) == 0) + 1
                    if ex.res.maxdepth > cap: C['fixed_stack_capacity_exceeded_left_to_C12'] += 1
                    else: viol(out, g, data, 11, 'recovery through cstring_buffer threw %s although the parse needs %d stack entries and the documented capacity is %d' % (r11.extra[:60], ex.res.maxdepth, cap))
                elif (r11.res, model.mask_positions(_COPYEV.sub('', r11.events))) != (r0.res, got):
                    viol(out, g, data, 11, 'recovery through cstring_buffer gives (%s, %s), through string_buffer (%s, %s)' % (r11.res, r11.events[:150], r0.res, r0.events[:150]))
            # the same recovery with whitespace / newlines not skipped: blanks are then ordinary input also while terms are being discarded
            for mo, (sw, sn) in ((7, (False, True)), (9, (False, False))):
                ro = byk.get((gi, idx, mo))
                if ro is None: continue
                exo = model.expect(g, tb, data, skip_ws=sw, skip_nl=sn)
                if exo.res.hang: continue
                C['recoveries_without_whitespace_skipping'] += 1
                goto_ = model.mask_positions(_COPYEV.sub('', ro.events)); wanto = model.mask_positions(exo.events)
                if (ro.res == 1) != exo.ok or goto_ != wanto or ro.stream != exo.stream:
                    viol(out, g, data, mo, 'with %s: result %s, log %s, messages %r; the documented algorithm gives %s, %s, %r' % (
                        'skip_whitespace(false)' if mo == 7 else 'skip_whitespace(false), skip_newline(false)', ro.res, goto_[:150], ro.stream[:100], exo.ok, wanto[:150], exo.stream[:100]))
            acts = trace_actions(dg.parse_trace(r1.stream))
            if acts != ex.trace:
                k = next((i for i in range(min(len(acts), len(ex.trace))) if acts[i] != ex.trace[i]), min(len(acts), len(ex.trace)))
                viol(out, g, data, 1, 'recovery steps differ from the documented algorithm at event %d: observed %s expected %s' % (k, acts[k:k + 4], ex.trace[k:k + 4]))
        if len(out['samples']) < 2 and inputs[gi]:
            for d in inputs[gi]:
                e = model.expect(g, tb, d)
                if e.res.errors and e.ok:
                    out['samples'].append({'grammar': g.text(), 'input': d.decode('latin-1'), 'reference_actions': [str(a) for a in e.res.actions[:14]]}); break

def judge_c13(spec, gs, tbs, inputs, diags, dumps, maps, tdiffs, byk, jobs, info, out):
    C = out['counts']
    crash_check('C13', gs, jobs, byk, info, out, 'site:context_parse@crash')
    for gi, g in enumerate(gs):
        C['grammars'] += 1
        if not parseable(gi, gs, tbs, diags, tdiffs, need_match=False): C['grammars_skipped'] += 1; continue
        tb = tbs[gi]
        isctx = any(r.ftor == 'x' for r in g.rules)
        for idx, data in enumerate(inputs[gi]):
            if not isctx:
                a = byk.get((gi, idx, 0)); b = byk.get((gi, idx, 20))
                if a is None or b is None: continue
                C['evaluations'] += 1; C['parse_vs_context_parse_compared'] += 1
                if (a.res, a.root, a.events, a.stream) != (b.res, b.root, b.events, b.stream):
                    viol(out, g, data, 20, 'context_parse differs from parse on a grammar that ignores the context: (%s,%s,%s) vs (%s,%s,%s)' % (b.res, b.root, b.events[:100], a.res, a.root, a.events[:100]))
                continue
            for mode in (20, 21, 22, 23, 24, 25, 26, 27, 28, 29, 30, 31, 32, 33):
                r = byk.get((gi, idx, mode))
                if r is None: continue
                ex = model.expect(g, tb, data, ctx_mode=mode)
                if ex.res.hang: continue
                C['evaluations'] += 1; C['contextual_calls_expected'] += ex.xcount
                if ex.xcount >= 2: out['distinct'].append(common.sha(g.key(), data, str(mode))[:12])
                got = model.mask_positions(_COPYEV.sub('', r.events)); want = model.mask_positions(ex.events)
                m = re.search(r'ctx=(-?\d+),(\d+),(\d+),(\d+)', r.extra)
                cnt, copies, moves, momoves = (int(x) for x in m.groups()) if m else (None, None, None, None)
                if (r.res == 1) != ex.ok: C['acceptance_disagreements_left_to_C01'] += 1; continue
                cat = {20: 'lvalue', 21: 'const lvalue', 22: 'rvalue temporary', 23: 'move-only lvalue', 24: 'lvalue (verbose)', 25: 'lvalue, overload (ctx, buffer, stream)', 26: 'rvalue temporary, overload (ctx, buffer, stream)',
                       27: 'lvalue, overload (ctx, buffer)', 28: 'named move-only object passed with std::move, overload (ctx, buffer, stream)', 29: 'named object passed with std::move, with options', 30: 'named move-only object passed with std::move, overload (ctx, buffer)', 31: 'lvalue of a class with an overloaded unary operator&', 32: 'scalar (long) lvalue', 33: 'pointer lvalue'}[mode]
                if got != want:
                    viol(out, g, data, mode, '%s context: functor log %s expected %s ("=" same object, "!" other object, c/m constness, #n calls seen so far)' % (cat, got[:250], want[:250]))
                    continue
                if copies or moves or momoves:
                    viol(out, g, data, mode, '%s context was copied %d / moved %d times by the library' % (cat, copies, moves + momoves))
                if mode in (20, 23, 24, 25, 27, 28, 29, 30, 31, 32, 33) and cnt != ex.xcount:
                    viol(out, g, data, mode, '%s context: caller sees %s mutations after the call, %d contextual reductions happened' % (cat, cnt, ex.xcount))
        if len(out['samples']) < 2 and inputs[gi] and isctx:
            d = inputs[gi][len(inputs[gi]) // 2]
            out['samples'].append({'grammar': g.text(), 'functors': [r.ftor for r in g.rules], 'input': d.decode('latin-1'), 'expected_log_lvalue': model.expect(g, tb, d, ctx_mode=20).events[:300]})


def judge_c18(spec, gs, tbs, inputs, diags, dumps, maps, tdiffs, byk, jobs, info, out):
    C = out['counts']
    crash_check('C18', gs, jobs, byk, info, out, 'site:parse@crash')
    OPT = {0: (True, True), 1: (True, True), 3: (True, True), 4: (True, True), 7: (False, True), 8: (True, False), 9: (False, False)}
    for gi, g in enumerate(gs):
        C['grammars'] += 1
        if tdiffs[gi] and not (gg.classify(tbs[gi]) in ('rr', 'acc') or diags[gi].has_rr):
            # "everything else as for the generated lexer": the table over custom terms is the one the grammar and the declared precedences give
            C['tables_compared_for_custom_terms'] += 1
            viol(out, g, None, None, 'parse table of the grammar over custom terms differs from the reference: ' + '; '.join(tdiffs[gi][:3]), terms=[(t.text, t.prec, t.assoc) for t in g.terms])
            continue
        if not parseable(gi, gs, tbs, diags, tdiffs, need_match=False): C['grammars_skipped'] += 1; continue
        tb = tbs[gi]
        for idx, data in enumerate(inputs[gi]):
            for mode, (sw, sn) in OPT.items():
                r = byk.get((gi, idx, mode))
                if r is None: continue
                ex = model.expect(g, tb, data, skip_ws=sw, skip_nl=sn)
                if ex.res.hang: continue
                C['evaluations'] += 1
                ncalls = ex.events.count('L')
                C['lexer_calls_expected'] += ncalls
                if ncalls >= 2: out['distinct'].append(common.sha(g.key(), data, str(mode))[:12])
                probs = []
                if (r.res == 1) != ex.ok: probs.append('result %s, expected %s' % (r.res, ex.ok))
                if r.events != ex.events:
                    gl = re.findall(r'L[^;]*;', r.events); wl = re.findall(r'L[^;]*;', ex.events)
                    if gl != wl: probs.append('lexer calls (offset:remaining:line:col->term:len) %s, expected %s' % (' '.join(gl[:8]), ' '.join(wl[:8])))
                    else: probs.append('functor log %s, expected %s' % (r.events[:200], ex.events[:200]))
                if mode != 1 and r.stream != ex.stream: probs.append('stream %r, expected %r' % (r.stream[:100], ex.stream[:100]))
                if mode == 4 and (r.cb[1] - r.cb[4] > 0 or r.cb[2] or r.cb[3]): probs.append('buffer monitor: ' + r.extra)
                if probs:
                    viol(out, g, data, mode, 'custom lexer contract: ' + '; '.join(probs), lexspec_terms={chr(b): (g.lexspec[0][b], g.lexspec[1][b]) for b in range(256) if g.lexspec[0][b] >= 0})
        if len(out['samples']) < 2 and inputs[gi]:
            d = inputs[gi][len(inputs[gi]) // 2]
            out['samples'].append({'grammar': g.text(), 'lexer_script': {chr(b): (g.lexspec[0][b], g.lexspec[1][b]) for b in range(256) if g.lexspec[0][b] >= 0},
                                   'input': d.decode('latin-1'), 'expected_log': model.expect(g, tb, d).events[:400]})

JUDGES = {'C01': judge_c01, 'C02': judge_c02, 'C09': judge_c09, 'C10': judge_c10, 'C14': judge_c14, 'C16': judge_c16, 'C11': judge_c11, 'C05': judge_c05, 'C08': judge_c08, 'C13': judge_c13, 'C18': judge_c18}
