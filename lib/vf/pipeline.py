"""The grammar pipeline: generate grammars+inputs, build translation units against /repo's tree,
execute, and judge the recorded observations per property with the reference models."""
import random, json, collections, itertools, re, traceback
from . import common, ref_lr1, gen_grammar as gg, emit_grammar as eg, model, diag as dg
from .grammar import Grammar

def tok_bytes(g, toks, rnd=None, ws=0.0, wschars=b' \t\n\r\x0b\x0c'):
    out = bytearray()
    for i, t in enumerate(toks):
        if rnd and ws and rnd.random() < ws:
            for _ in range(rnd.choice([1, 1, 2, 3])): out.append(rnd.choice(wschars))
        out += g.terms[t].text.encode('latin-1') if t < g.T else b''
    if rnd and ws and rnd.random() < ws: out.append(rnd.choice(wschars))
    return bytes(out)

def case_key(g, data, mode):
    return 'input:' + common.sha(g.key(), data, str(mode))[:16]

def diag_conflict_free(d):
    return not d.has_sr and not d.has_rr

def prepare(spec):
    """grammars, tables, inputs for a batch (deterministic in spec['seed'])"""
    rnd = random.Random(spec['seed'])
    gs = [Grammar.from_json(j) for j in spec['grammars']]
    tbs = [ref_lr1.build(g) for g in gs]
    cfg = spec['cfg']
    inputs = []
    for g, tb in zip(gs, tbs):
        cls = gg.classify(tb)
        if cls in ('rr', 'acc'):
            inputs.append([]); continue
        seqs = gg.inputs_for(g, rnd, n_exh_cap=cfg.get('exh_cap', 300), exh_len=cfg.get('exh_len', 5),
                             n_rand=cfg.get('n_rand', 30), n_mut=cfg.get('n_mut', 60), long_targets=tuple(cfg.get('long', (30, 120))))
        datas = []
        for s in seqs:
            datas.append(tok_bytes(g, s))
        for s in seqs[:: max(1, len(seqs) // max(1, cfg.get('n_ws', 20)))]:
            datas.append(tok_bytes(g, s, rnd, ws=0.4))
        # a few raw byte strings with foreign characters
        for _ in range(cfg.get('n_raw', 8)):
            alph = ''.join(t.text for t in g.terms) + ' \n?Z\x00\xff'
            datas.append(''.join(rnd.choice(alph) for _ in range(rnd.randint(0, 8))).encode('latin-1'))
        seen = set(); uniq = []
        for d in datas:
            if d not in seen: seen.add(d); uniq.append(d)
        inputs.append(uniq)
    return gs, tbs, inputs

def worker(spec):
    try:
        return _worker(spec)
    except common.BuildError as e:
        return {'counts': {}, 'viol': [], 'samples': [], 'distinct': [], 'incon': ['build: ' + e.diag[:1500]], 'buildfail': spec}
    except Exception as e:
        return {'counts': {}, 'viol': [], 'samples': [], 'distinct': [], 'incon': ['worker exception: ' + traceback.format_exc()[-1500:]]}

def _worker(spec):
    prop = spec['prop']; cfg = spec['cfg']
    gs, tbs, inputs = prepare(spec)
    modes = cfg['modes']
    src = eg.emit_tu(gs, runtime_ctor=set(spec.get('runtime_ctor', ())))
    exe = common.build(src, spec.get('flavour', 'clang'))
    jobs = []
    for gi in range(len(gs)): jobs.append(('D', gi))
    rc0, recs0, dumps, meta0, err0 = eg.run_jobs(exe, jobs, timeout=300)
    out = {'counts': collections.Counter(), 'viol': [], 'samples': [], 'distinct': [], 'incon': []}
    C = out['counts']
    if rc0 != 0 or not meta0['end']:
        out['viol'].append((['site:write_diag_str@crash'], 'diagnostics run failed rc=%s %s' % (rc0, err0[-300:]), {'grammars': spec['grammars']}))
        return out
    diags = {}; maps = {}; tdiffs = {}
    for gi, g in enumerate(gs):
        d = dg.parse_diag(dumps[gi]['diag']); diags[gi] = d
        m, diffs = model.match_tables(g, tbs[gi], d)
        maps[gi] = m; tdiffs[gi] = diffs
    # which grammars can be parsed
    jobs = []
    for gi, g in enumerate(gs):
        cls = gg.classify(tbs[gi])
        if cls in ('rr', 'acc') or diags[gi].has_rr: continue
        for idx, data in enumerate(inputs[gi]):
            for mode in modes: jobs.append((gi, idx, mode, data))
    rc, recs, _, meta, err = eg.run_jobs(exe, jobs, timeout=cfg.get('timeout', 600))
    byk = {(r.gi, r.idx, r.mode): r for r in recs}
    ctxinfo = {'rc': rc, 'meta': meta, 'err': err[-2000:]}
    JUDGES[prop](spec, gs, tbs, inputs, diags, dumps, maps, tdiffs, byk, jobs, ctxinfo, out)
    return out

# -------------------------------------------------------------------------------------------------
def crash_check(prop, gs, jobs, byk, info, out, site):
    """a run that did not finish or lost records: find the first missing case"""
    if info['rc'] == 0 and info['meta']['end'] and not info['meta']['cvec'] and len(byk) >= len(jobs): return False
    first = next((j for j in jobs if (j[0], j[1], j[2]) not in byk), None)
    if first is None and not info['meta']['cvec']: return False
    g = gs[first[0]] if first else None
    summ = 'run aborted rc=%s timeout=%s cvec=%s at %s input=%r stderr=%s' % (
        info['rc'], info['meta'].get('timeout'), info['meta']['cvec'][:1], g.text() if g else None, first[3] if first else None, info['err'][-400:])
    keys = [case_key(g, first[3], first[2])] if first else []
    out['viol'].append((keys + [site], summ, {'grammar': g.to_json() if g else None, 'input': first[3].hex() if first else None, 'mode': first[2] if first else None}))
    return True

def judge_c01(spec, gs, tbs, inputs, diags, dumps, maps, tdiffs, byk, jobs, info, out):
    C = out['counts']
    crash_check('C01', gs, jobs, byk, info, out, 'site:parse@crash')
    for gi, g in enumerate(gs):
        tb = tbs[gi]; d = diags[gi]
        C['grammars'] += 1
        if not tb.lr1 or not diag_conflict_free(d):
            C['grammars_not_lr1_or_conflict_disagreement'] += (1 if tb.lr1 != diag_conflict_free(d) else 0)
            C['grammars_with_conflicts'] += 1
            continue
        C['grammars_lr1'] += 1
        nontrivial = len(tb.states) >= 6
        if tdiffs[gi]:
            out['viol'].append((['input:' + g.key() + ':table'], 'LR(1) grammar %s: table differs from reference: %s' % (g.text(), '; '.join(tdiffs[gi][:3])),
                                {'grammar': g.to_json(), 'diffs': tdiffs[gi][:10]}))
        C['states_compared'] += len(tb.states)
        acc = 0
        for idx, data in enumerate(inputs[gi]):
            r = byk.get((gi, idx, 0))
            if r is None: continue
            ex = model.expect(g, tb, data)
            C['evaluations'] += 1
            acc += ex.ok
            if nontrivial: out['distinct'].append(common.sha(g.key(), data)[:12])
            if (r.res == 1) != ex.ok:
                out['viol'].append(([case_key(g, data, 0)], 'grammar %s input %r: parse %s, grammar says %s' % (
                    g.text(), data, 'accepted' if r.res == 1 else 'rejected(%d)' % r.res, 'derivable' if ex.ok else 'not derivable'),
                    {'grammar': g.to_json(), 'input': data.hex(), 'mode': 0, 'observed': r.res, 'expected': ex.ok}))
        C['accepted_inputs'] += acc
        if len(out['samples']) < 2 and inputs[gi]:
            out['samples'].append({'grammar': g.text(), 'inputs': len(inputs[gi]), 'accepted': acc, 'example_input': inputs[gi][-1].decode('latin-1')})

JUDGES = {'C01': judge_c01}
