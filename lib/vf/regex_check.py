"""C03 / C12(1) / C17 machinery: run the library's real pattern front end and builder on patterns chosen
at run time, read the automaton it built, and judge it with the reference model."""
import os, random, binascii, tempfile, collections, traceback, re
from . import common, ref_regex as rr, diag as dg

def harness_exe(flavour='clang1'):
    return common.build(open(os.path.join(common.HARNESS, 'regex_rt.cpp')).read(), flavour, name='regex_rt')

def run_lines(exe, lines, timeout=900):
    d = os.path.join(common.WORK, 'jobs'); os.makedirs(d, exist_ok=True)
    fd, path = tempfile.mkstemp(prefix='r', dir=d)
    try:
        with os.fdopen(fd, 'w') as f: f.write('\n'.join(lines) + '\n')
        rc, out, err, to = common.run(exe, [path], timeout=timeout)
    finally:
        try: os.unlink(path)
        except OSError: pass
    return rc, out.decode('latin-1'), err.decode('latin-1', 'replace'), to

def hx(b): return binascii.hexlify(b).decode() if b else '-'

def build_patterns(exe, pats):
    """pats: list of pattern bytes. Returns list of dict(status, pred, actual, cb, states) (None when the run died before it) and meta"""
    lines = ['P %d %s' % (i, hx(p)) for i, p in enumerate(pats)]
    rc, out, err, to = run_lines(exe, lines)
    res = [None] * len(pats); cur = None; buf = []
    ended = False
    for ln in out.split('\n'):
        if ln.startswith('R '):
            p = ln.split()
            cur = int(p[1]); res[cur] = {'status': p[2], 'pred': int(p[3]), 'actual': int(p[4]), 'cb': [int(x) for x in p[5:10]], 'note': p[10] if len(p) > 10 else '-', 'states': None}
            buf = []
        elif ln.startswith('Q '): buf.append(ln)
        elif ln.startswith('E '):
            if cur is not None and res[cur]['status'] == 'ok': res[cur]['states'] = dg.parse_dfa_dump('\n'.join(buf))
            cur = None
        elif ln.startswith('END'): ended = True
    return res, {'rc': rc, 'ended': ended, 'err': err[-1500:], 'timeout': to, 'out_tail': out[-300:]}

def match_queries(exe, qs):
    """qs: list of (pattern, string). Returns list of dict(status, term, len, full, cb)"""
    lines = ['M %d %s %s' % (i, hx(p), hx(s)) for i, (p, s) in enumerate(qs)]
    rc, out, err, to = run_lines(exe, lines)
    res = [None] * len(qs)
    for ln in out.split('\n'):
        if ln.startswith('A '):
            p = ln.split()
            if p[2] != 'ok': res[int(p[1])] = {'status': p[2]}
            else: res[int(p[1])] = {'status': 'ok', 'term': int(p[3]), 'len': int(p[4]), 'full': int(p[5]), 'cb': [int(x) for x in p[6:11]]}
    return res, {'rc': rc, 'err': err[-1500:], 'timeout': to}

def pattern_key(text): return 'input:' + common.sha('regex', text)[:16]

CLASS_KEY = 'class:regex-needs-determinisation'

def gen_patterns(rnd, n, max_positions=60):
    out = []
    while len(out) < n:
        alpha = rnd.choice([rr.ALPHA_SMALL, rr.ALPHA_SMALL, rr.ALPHA_MED, rr.ALPHA_WIDE])
        ast = rr.gen_ast(rnd, rnd.choice([1, 2, 2, 3, 3, 4, 5]), alpha)
        if rr.positions_count(ast) > max_positions: continue
        text = rr.finish_text(rr.render(ast))
        if text is None or len(text) > 200: continue
        out.append((ast, text))
    return out

def nested_loop(ast, inloop=False):
    """a star/plus inside another star/plus (the builder's merged_from memo goes stale there, D8b)"""
    k = ast[0]
    if k == 'set': return False
    if k in ('star', 'plus'):
        if inloop: return True
        return nested_loop(ast[1], True)
    return any(nested_loop(x, inloop) for x in ast[1:] if isinstance(x, tuple))

NESTED_KEY = 'class:regex-nested-loop-stale-merge'

def corpus():
    """seed-independent corpus, stored in corpus/regex_corpus.txt: hand-written patterns (documentation, tests,
    examples, typical lexer shapes), every AST with <= 2 primaries over {a,b}, and 600 patterns drawn once"""
    out = []
    for line in open(os.path.join(common.VERIF, 'corpus', 'regex_corpus.txt')):
        line = line.strip()
        if not line or line.startswith('#'): continue
        t = binascii.unhexlify(line)
        out.append((rr.parse(t), t))
    return out

# ---------------------------------------------------------------- C17: malformed patterns
def malformed(rnd, n):
    """(text, class) pairs that the property names as must-reject; built by breaking valid patterns"""
    out = []
    def valid():
        while True:
            ast = rr.gen_ast(rnd, rnd.choice([0, 1, 2, 3]), rnd.choice([rr.ALPHA_SMALL, rr.ALPHA_MED]))
            t = rr.finish_text(rr.render(ast))
            if t is not None and len(t) < 40: return t
    while len(out) < n:
        v = valid(); w = valid(); k = rnd.randrange(8)
        if k == 0: t, c = v + b'(' + w, 'unbalanced group'
        elif k == 1: t, c = v + b')' + w, 'unbalanced group'
        elif k == 2: t, c = b'(' + v + b'|(' + w + b')', 'unbalanced group'
        elif k == 3:
            items = bytes(rnd.choice(b'abcxyz019_') for _ in range(rnd.randint(0, 4)))
            t, c = v + b'[' + (b'^' if rnd.random() < 0.3 else b'') + items + rnd.choice([b'', b'a-', b'\\', b'\\x4']), 'unterminated set'
        elif k == 4:
            # a repetition count is a non-empty string of the digits 0-9 and nothing else (every other byte of the 0x30 column, signs, blanks, letters)
            cnt = rnd.choice([b'{}', b'{', b'{2', b'{x}', b'{2,3}', b'{-1}', b'{:}', b'{;}', b'{<}', b'{=}', b'{>}', b'{1:}', b'{=2}', b'{2;3}', b'{/}', b'{ 2}', b'{2 }', b'{+2}', b'{2a}', b'{0x2}', b'{\\x32}'])
            t, c = v + cnt + rnd.choice([b'', w]), 'dangling or empty repetition'
        elif k == 5:
            t, c = rnd.choice([v + b'|', b'|' + v, v + b'||' + w, b'(|' + v + b')', v + b'()' + w, b'(' + v + b'|)' + w]), 'empty alternative'
        elif k == 6:
            q = rnd.choice([b'*', b'+', b'?', b'{2}'])
            t, c = rnd.choice([q + v, b'(' + q + v + b')', v + b'|' + q + w, q]), 'leading quantifier'
        else:
            b = bytes([rnd.choice([0, 1, 9, 10, 13, 27, 31, 127, 128, 200, 255]) if rnd.random() < 0.3 else rnd.choice([x for x in range(256) if x < 32 or x >= 127])])      # every non-printable value (a byte that equals a meta character modulo 128 is still a raw byte)
            i = rnd.randrange(len(v) + 1)
            t, c = v[:i] + b + v[i:], 'raw non-printable byte'
            # inside an escape the byte may be legal (\<byte> is not: escaped char must be printable) - keep it only if the reference rejects
        try:
            rr.parse(t); continue          # the reference accepts it: not a must-reject case after all
        except rr.PatternError:
            pass
        out.append((t, c))
    return out

def judge_malformed(args):
    try:
        items, flavour = args
        exe = harness_exe(flavour)
        out = {'counts': collections.Counter(), 'viol': [], 'samples': [], 'distinct': [], 'incon': []}
        C = out['counts']
        res, meta = build_patterns(exe, [t for t, _ in items])
        if not meta['ended']:
            k = next((i for i, r in enumerate(res) if r is None), None)
            bad = items[k][0] if k is not None else None
            out['viol'].append(([pattern_key(bad)] if bad else ['site:regex-front-end@crash'], 'pattern front end crashed or hung (rc=%s timeout=%s) on %r: %s' % (meta['rc'], meta['timeout'], bad, meta['err'][-300:]), {'pattern_hex': bad.hex() if bad else None}))
        for (t, c), r in zip(items, res):
            if r is None: continue
            C['evaluations'] += 1; C['class_' + c.replace(' ', '_')] += 1
            C['pattern_bytes_scanned'] += r['cb'][0]; C['terminator_position_reads'] += r['cb'][4]
            out['distinct'].append(common.sha(t)[:12])
            rep = {'pattern': t.decode('latin-1'), 'pattern_hex': t.hex(), 'class': c}
            if r['status'] in ('ok', 'toolarge') or r['pred'] >= 0:
                out['viol'].append(([pattern_key(t)], 'malformed pattern %r (%s) was accepted: builder %s, size analyzer %s' % (t, c, r['status'], r['pred']), rep))
            if r['cb'][1] or r['cb'][2] or r['cb'][3]:
                out['viol'].append(([pattern_key(t), 'site:regex_lexer@overread'], 'scanning malformed pattern %r read outside the pattern (oob_deref=%d oob_form=%d bad_view=%d)' % (t, r['cb'][1], r['cb'][2], r['cb'][3]), rep))
        out['samples'] = [{'pattern': t.decode('latin-1'), 'class': c} for t, c in items[:3]]
        return out
    except Exception:
        return {'counts': {}, 'viol': [], 'samples': [], 'distinct': [], 'incon': ['regex worker: ' + traceback.format_exc()[-1200:]]}

def dangling_ranges(rnd, n):
    """patterns with a set whose last item is `<char>-` directly before the closing bracket, most of them followed by text that contains another raw `]`.
    The documented syntax has no such range; a set ends at its first raw `]`."""
    out = []; seen = set()
    fixed = [b'[a-]', b'[a-]]', b'[a-][b]', b'[+-]?[0-9]+', b'x[0-]y', b'[a-]x]', b'[^a-]]', b'[ab-][c]d', b'[0-9a-]b[xy]', b'([a-])]', b'[a-]+[b]']
    for t in fixed: out.append(t); seen.add(t)
    guard = 0
    while len(out) < n and guard < 50 * n:
        guard += 1
        pre = bytes(rnd.choice(b'abxy01') for _ in range(rnd.randint(0, 2)))
        items = bytes(rnd.choice(b'abcxyz019_+') for _ in range(rnd.randint(0, 3)))
        if rnd.random() < 0.25: items += bytes([rnd.choice(b'ab0')]) + b'-' + bytes([rnd.choice(b'cz9')])
        st = b'[' + (b'^' if rnd.random() < 0.2 else b'') + items + bytes([rnd.choice(b'abcxyz019_+*.')]) + b'-]'
        post = rnd.choice([b'', b']', b'[b]', b'x]', b'[xy]z', b'?[0-9]+', b'+[b]', b'b[c]d', b'[^a]', b'y[0-9]', b'\\]', b'[a-c]'])
        t = pre + st + post
        if t in seen: continue
        seen.add(t); out.append(t)
    return out

def judge_dangling(args):
    """a range without an end character: the pattern is refused, or (a library that reads the trailing '-' as a literal) the automaton is the one of the
    reading in which the set ends at its first raw `]`. An accepted pattern with any other language is a matcher with an arbitrary meaning."""
    try:
        items, flavour = args
        exe = harness_exe(flavour)
        out = {'counts': collections.Counter(), 'viol': [], 'samples': [], 'distinct': [], 'incon': []}
        C = out['counts']
        res, meta = build_patterns(exe, items)
        if not meta['ended']:
            k = next((i for i, r in enumerate(res) if r is None), None)
            bad = items[k] if k is not None else None
            out['viol'].append(([pattern_key(bad)] if bad else ['site:regex-front-end@crash'], 'pattern front end crashed or hung (rc=%s timeout=%s) on %r: %s' % (meta['rc'], meta['timeout'], bad, meta['err'][-300:]), {}))
        for t, r in zip(items, res):
            if r is None: continue
            C['evaluations'] += 1; C['class_range_without_end'] += 1
            C['pattern_bytes_scanned'] += r['cb'][0]; C['terminator_position_reads'] += r['cb'][4]
            out['distinct'].append(common.sha(t)[:12])
            rep = {'pattern': t.decode('latin-1'), 'pattern_hex': t.hex(), 'class': 'range without end'}
            if r['cb'][1] or r['cb'][2] or r['cb'][3]:
                out['viol'].append(([pattern_key(t), 'site:regex_lexer@overread'], 'scanning pattern %r read outside the pattern (oob_deref=%d oob_form=%d bad_view=%d)' % (t, r['cb'][1], r['cb'][2], r['cb'][3]), rep))
            if r['status'] != 'ok' and r['pred'] < 0: C['range_without_end_refused'] += 1; continue
            if r['status'] != 'ok':
                out['viol'].append(([pattern_key(t)], 'pattern %r (range without end): size analyzer accepts it (%d states) but the builder answers %s' % (t, r['pred'], r['status']), rep)); continue
            C['range_without_end_accepted'] += 1
            try:
                ast = rr.parse(t)
            except rr.PatternError as e:
                out['viol'].append(([pattern_key(t)], 'pattern %r (range without end, and the set-ends-at-first-bracket reading is itself malformed: %s) was accepted' % (t, e), rep)); continue
            if not rr.Glushkov(ast).deterministic(): C['range_without_end_unjudged_nondeterministic'] += 1; continue
            w = rr.equivalent(rr.RefDFA(ast), rr.ObsDFA(r['states']))
            if w is not None:
                out['viol'].append(([pattern_key(t)], 'pattern %r (range without end) was accepted with an arbitrary meaning: the automaton and the set-ends-at-its-first-bracket reading differ on %r' % (t, w), rep))
        out['samples'] = [{'pattern': t.decode('latin-1'), 'class': 'range without end'} for t in items[:3]]
        return out
    except Exception:
        return {'counts': {}, 'viol': [], 'samples': [], 'distinct': [], 'incon': ['regex worker: ' + traceback.format_exc()[-1200:]]}

def judge_random_bytes(args):
    """unspecified strings: only memory safety of the scan is judged"""
    try:
        items, flavour = args
        exe = harness_exe(flavour)
        out = {'counts': collections.Counter(), 'viol': [], 'samples': [], 'distinct': [], 'incon': []}
        C = out['counts']
        res, meta = build_patterns(exe, items)
        if not meta['ended']:
            k = next((i for i, r in enumerate(res) if r is None), None)
            bad = items[k] if k is not None else None
            out['viol'].append(([pattern_key(bad)] if bad else ['site:regex-front-end@crash'], 'pattern front end crashed or hung (rc=%s timeout=%s) on %r: %s' % (meta['rc'], meta['timeout'], bad, meta['err'][-300:]), {'pattern_hex': bad.hex() if bad else None}))
        for t, r in zip(items, res):
            if r is None: continue
            C['evaluations'] += 1; C['unspecified_strings_scanned'] += 1
            C['unspecified_accepted' if r['status'] == 'ok' else 'unspecified_rejected'] += 1
            if r['cb'][1] or r['cb'][2] or r['cb'][3]:
                out['viol'].append(([pattern_key(t), 'site:regex_lexer@overread'], 'scanning %r read outside the pattern (oob_deref=%d oob_form=%d bad_view=%d)' % (t, r['cb'][1], r['cb'][2], r['cb'][3]), {'pattern_hex': t.hex()}))
        return out
    except Exception:
        return {'counts': {}, 'viol': [], 'samples': [], 'distinct': [], 'incon': ['regex worker: ' + traceback.format_exc()[-1200:]]}

OVERFLOW_KEY = 'site:dfa_size_analyzer@count-overflows-32-bits'
LEX_CLASS_KEY = 'class:lexer-union-needs-determinisation'

def judge_batch(args):
    try:
        return _judge_batch(args)
    except Exception:
        return {'counts': {}, 'viol': [], 'samples': [], 'distinct': [], 'incon': ['regex worker: ' + traceback.format_exc()[-1200:]]}

def _judge_batch(args):
    prop, items, is_corpus, flavour = args      # items: list of (ast, text)
    exe = harness_exe(flavour)
    out = {'counts': collections.Counter(), 'viol': [], 'samples': [], 'distinct': [], 'incon': []}
    C = out['counts']
    pats = [t for _, t in items]
    res, meta = build_patterns(exe, pats)
    if not meta['ended']:
        k = next((i for i, r in enumerate(res) if r is None), None)
        bad = pats[k] if k is not None else None
        out['viol'].append(([pattern_key(bad)] if bad else [] + ['site:regex-builder@crash'], 'pattern front end/builder crashed or hung (rc=%s timeout=%s) on pattern %r: %s' % (
            meta['rc'], meta['timeout'], bad, meta['err'][-300:]), {'pattern': bad.hex() if bad else None}))
    mism = []
    for (ast, text), r in zip(items, res):
        if r is None: continue
        C['evaluations'] += 1
        if r['status'] == 'toolarge': C['skipped_too_large'] += 1; continue
        if rr.positions_count(ast) > 50000:
            # (only the size prediction of such patterns is looked at: their automata cannot be built by anyone)
            if prop != 'C12': C['skipped_too_large'] += 1; continue
            det = True; nested = False
        else:
            g = rr.Glushkov(ast); det = g.deterministic()
            nested = nested_loop(ast)
        C['patterns_deterministic' if det else 'patterns_nondeterministic'] += 1
        if det and nested: C['patterns_deterministic_nested_loops'] += 1
        keys = [pattern_key(text)]
        if not is_corpus:
            if not det: keys.append(CLASS_KEY)
            elif nested: keys.append(NESTED_KEY)
        rep = {'pattern': text.decode('latin-1'), 'pattern_hex': text.hex(), 'deterministic': det, 'nested_loops': nested}
        if prop == 'C12':
            if r['status'] == 'ok' or r['status'] == 'threw':
                C['size_predictions_checked'] += 1
                out['distinct'].append(common.sha(text)[:12])
                if r['status'] == 'threw' or r['actual'] > r['pred']:
                    # recorded finding: repetition counts whose state count does not fit the analyzer's 32-bit arithmetic wrap around (decided here in unbounded arithmetic)
                    ovf = [OVERFLOW_KEY] if rr.analyzer_size_exact(ast) >= 2 ** 32 else []
                    out['viol'].append(([pattern_key(text), 'site:dfa_size_analyzer@underestimate'] + ovf, 'pattern %r: dfa_size_analyzer predicts %d states, the builder created %d (%s)' % (text, r['pred'], r['actual'], r['status']), rep))
            continue
        if r['status'] != 'ok':
            out['viol'].append((keys, 'pattern %r in the documented syntax was %s by the pattern parser' % (text, r['status']), rep)); continue
        if r['cb'][1] or r['cb'][2] or r['cb'][3]:
            out['viol'].append(([pattern_key(text), 'site:regex_lexer@overread'], 'scanning pattern %r read outside the pattern (oob_deref=%d oob_form=%d bad_view=%d)' % (text, r['cb'][1], r['cb'][2], r['cb'][3]), rep))
        try:
            ref = rr.RefDFA(ast); obs = rr.ObsDFA(r['states'])
            w = rr.equivalent(ref, obs)
        except OverflowError:
            C['skipped_reference_too_large'] += 1; continue
        C['automaton_states_observed'] += len(r['states'])
        if len(ref.trans) >= 3: out['distinct'].append(common.sha(text)[:12])
        if w is not None:
            mism.append((ast, text, w, ref.full_match(w), keys, rep, det))
    if mism:
        ans, meta2 = match_queries(exe, [(t, w) for _, t, w, _, _, _, _ in mism])
        for (ast, text, w, want, keys, rep, det), a in zip(mism, ans):
            if a is None or a.get('status') != 'ok':
                out['incon'].append('witness replay failed for %r' % text); continue
            got = bool(a['full'])
            if got == want:
                out['incon'].append('table difference for %r not confirmed by the matcher on %r' % (text, w)); continue
            C['mismatches_confirmed_by_real_matcher'] += 1
            rep = dict(rep); rep.update({'witness': w.decode('latin-1'), 'witness_hex': w.hex(), 'matcher_says': got, 'language_says': want})
            out['viol'].append((keys, 'pattern %r (%s): matcher %s %r but the string %s in the language' % (
                text, 'deterministic' if det else 'needs determinisation', 'accepts' if got else 'rejects', w, 'is' if want else 'is not'), rep))
    for (ast, text), r in list(zip(items, res))[:2]:
        if r and r['status'] == 'ok': out['samples'].append({'pattern': text.decode('latin-1'), 'states_built': r['actual'], 'predicted': r['pred']})
    return out

# ---------------------------------------------------------------- compile-time path: regex::expr<P> objects built by the constant evaluator
def cxx_str(b):
    out = []
    for ch in b:
        if ch in b'"\\': out.append('\\' + chr(ch))
        elif 32 <= ch < 127 and ch != ord('?'): out.append(chr(ch))
        else: out.append('\\x%02x""' % ch)
    return '"' + ''.join(out) + '"'

def emit_ct(pats, literals=None, with_parser=None, lead=None):
    o = ['#include "vf_harness.hpp"', 'using namespace ctpg;']
    for i, p in enumerate(pats):
        o.append('constexpr char p%d[] = %s;' % (i, cxx_str(p)))
        o.append('constexpr regex::expr<p%d> r%d;' % (i, i))
    for i in (with_parser or []):
        o.append('namespace pp%d { constexpr nterm<int> S("S"); constexpr regex_term<p%d> t("t"); constexpr parser p(S, terms(t), nterms(S), rules(S(t) >= [](auto) { return 1; })); }' % (i, i))
        if lead and lead.get(i):
            # ... and listed after a string term that extends one of its members (the pattern's states are merged into the ones of the earlier term)
            o.append('namespace pq%d { constexpr nterm<int> S("S"); constexpr regex_term<p%d> t("t"); constexpr string_term k(%s); constexpr parser p(S, terms(k, t), nterms(S), rules(S(t) >= [](auto) { return 1; }, S(k) >= [](auto) { return 2; })); }' % (i, i, cxx_str(lead[i])))
    o.append('''template<class P> void pquery(int i, const P& p, const std::string& s) {
  ctpg::buffers::string_buffer sb{ std::string(s) }; ctpg::utils::no_stream ns; auto r = p.parse(ctpg::parse_options{}.set_skip_whitespace(false), sb, ns);
  std::printf("T %d %d\\n", i, int(r.has_value())); }''')
    o.append('''template<class E> void dump(int i, const E& e) {
  std::string d; ctpg::verif::access::dump_dfa(ctpg::verif::access::expr_sm(e), d);
  std::printf("R %d ok %d %zu 0 0 0 0 0 -\\n%sE %d\\n", i, int(E::dfa_size), ctpg::verif::access::expr_sm(e).size(), d.c_str(), i); }
template<class E> void query(int i, const E& e, const std::string& s) {
  vf::checked_buffer b{ std::string_view(s) }; bool m = e.match(b);
  ctpg::buffers::string_buffer sb{ std::string(s) }; bool m2 = e.match(sb);
  // the other documented overloads: with a stream, with options (verbose on: the trace must not change the answer)
  std::ostringstream s3, s4; bool m3 = e.match(sb, s3); bool m4 = e.match(ctpg::match_options{}.set_verbose(), ctpg::buffers::string_view_buffer(std::string_view(s)), s4);
  std::printf("A %d ok %d %d %ld %ld %ld %ld %ld %d %d %d\\n", i, int(m), int(m2), b.derefs, b.oob_deref, b.oob_form, b.bad_view, b.max_read, int(m3), int(m4), int(s3.str().empty())); }
int main(int argc, char** argv) {
%(literals)s
  std::ifstream in(argv[1]); std::string line;
  while (std::getline(in, line)) { std::istringstream ls(line); std::string cmd, hs; int i; ls >> cmd >> i >> hs; if (hs == "-") hs.clear(); std::string s = vf::unhex(hs);
    switch (i) {''')
    for i in range(len(pats)):
        o.append('    case %d: if (cmd == "P") dump(%d, r%d); else { query(%d, r%d, s); %s } break;' % (i, i, i, i, i, (('pquery(%d, pp%d::p, s);' % (i, i)) + (('pquery(%d, pq%d::p, s);' % (1000 + i, i)) if (lead and lead.get(i)) else '')) if i in (with_parser or []) else ''))
    o.append('    }\n  }\n  std::printf("END\\n"); return 0; }')
    lit = '\n'.join('  std::printf("L %d %d %%d\\n", int(r%d.match(%s)));' % (i, k, i, cxx_str(sv)) for i, k, sv in (literals or []))
    return ('\n'.join(o) + '\n').replace('%(literals)s', lit)

def refs_pre(ast, s_):
    try: return rr.RefDFA(ast).full_match(s_)
    except OverflowError: return True

def short(b):
    return repr(b) if len(b) <= 60 else '%r...(%d bytes)' % (b[:40], len(b))

def judge_ct(args):
    """patterns compiled into regex::expr objects; automaton read through the hook, match() exercised on strings around the language"""
    try:
        prop, items, flavour, seed = args
        out = {'counts': collections.Counter(), 'viol': [], 'samples': [], 'distinct': [], 'incon': []}
        C = out['counts']; rnd = random.Random(seed)
        pats = [t for _, t in items]
        # the string-literal overload match("...") (a cstring_buffer inside): strings fixed when the program is generated
        literals = []
        for i, (ast, t) in enumerate(items):
            a = rr.sample_string(ast, rnd); b2 = rr.sample_string(ast, rnd)
            for k, sv in enumerate([a, a[:-1], a + b'\x00' + b2, a + b2, b'']): literals.append((i, k, sv))
        try:
            # the same pattern as the only term of a parser (the generated lexer builds its automaton through another entry point than regex::expr)
            with_parser = [i for i, (ast, t) in enumerate(items) if prop == 'C03' and not rr.Glushkov(ast).nullable and rr.positions_count(ast) <= 40][:4]
            lead = {}
            for i in []:      # (a string term sharing a prefix with the pattern makes the union non-deterministic for the reference: that is C04's recorded class; C03 uses fixed term sets instead)
                m_ = rr.sample_string(items[i][0], rnd)
                ext = m_ + b'Zq'
                if m_ and len(m_) <= 12 and all(32 < c < 127 and c not in b'"\\' for c in ext) and not refs_pre(items[i][0], ext):
                    try:
                        # only where the union of the two terms is deterministic for the reference (otherwise the recorded lexer finding class of C04 applies)
                        if rr.TaggedRefDFA([rr.parse(b''.join(b'\\' + bytes([c]) if not chr(c).isalnum() else bytes([c]) for c in ext)), items[i][0]]).deterministic(): lead[i] = ext
                    except Exception: pass
            exe = common.build(emit_ct(pats, literals, with_parser, lead), flavour, name='regex_ct')
        except common.BuildError as e:
            out['viol'].append((['site:regex::expr@constant-evaluation'], 'regex::expr objects for patterns in the documented syntax do not compile: %s' % e.diag[:600], {'patterns': [p.hex() for p in pats]}))
            return out
        rt = harness_exe('clang1')
        rres, _ = build_patterns(rt, pats)
        lines = ['P %d -' % i for i in range(len(pats))]
        queries = []
        refs = []
        for i, (ast, t) in enumerate(items):
            ref = rr.RefDFA(ast); refs.append(ref)
            alpha = sorted({b for s_ in ref.g.sets for b in list(s_)[:2]} | {0x61, 0})
            strs = {b''}
            for _ in range(12): strs.add(bytes(rnd.choice(alpha) for _ in range(rnd.randint(0, 6))))
            for _ in range(4):
                m_ = rr.sample_string(ast, rnd)          # members and their neighbours
                if len(m_) <= 200: strs.add(m_); strs.add(m_[:-1]); strs.add(m_.replace(b' ', b''))
            if prop == 'C06':
                for _ in range(6): strs.add(bytes(rnd.randrange(256) for _ in range(rnd.randint(1, 40))))
                strs.add(rr.sample_string(ast, rnd) + b'\x00'); strs.add(rr.sample_string(ast, rnd)[:-1])
            for s_ in sorted(strs): queries.append((i, s_)); lines.append('M %d %s' % (i, hx(s_)))
        # members (and near-members) longer than 65535 bytes, pumped along a cycle of the reference automaton
        npumped = 0
        for i, (ast, t) in enumerate(items):
            if npumped >= 3 or prop == 'C12': break
            ref = refs[i]
            for _ in range(6):
                a = rr.sample_string(ast, rnd)
                seen = {0: 0}; st = 0; dec = None
                for k, b in enumerate(a):
                    st = ref.step(st, b)
                    if st < 0: break
                    if st in seen: dec = (seen[st], k + 1); break
                    seen[st] = k + 1
                if dec is None: continue
                x, y, z = a[:dec[0]], a[dec[0]:dec[1]], a[dec[1]:]
                for total in (65536, 65537 + rnd.randrange(3000), 131072 + 5):
                    reps = (total - len(x) - len(z) + len(y) - 1) // len(y)
                    w = x + y * reps + z
                    for s_ in (w, w + bytes([rnd.choice(a)])):
                        queries.append((i, s_)); lines.append('M %d %s' % (i, hx(s_)))
                npumped += 1; C['patterns_with_members_beyond_65535_bytes'] += 1
                break
        rc, text, err, to = run_lines(exe, lines)
        if 'END' not in text:
            out['viol'].append((['site:regex::expr@crash'], 'compile-time built matchers (regex::expr::match) crashed at run time rc=%s: %s' % (rc, ' | '.join(re.findall(r'(ERROR: AddressSanitizer[^\n]*|runtime error:[^\n]*|SUMMARY: [A-Za-z]*Sanitizer[^\n]*)', err)[:3]) or err[-400:]), {'patterns': [p.hex() for p in pats]})); return out
        cur = None; buf = []; dumps = {}; answers = []
        for ln in text.split('\n'):
            if ln.startswith('R '): cur = int(ln.split()[1]); dumps[cur] = {'hdr': ln.split(), 'q': []}
            elif ln.startswith('Q ') and cur is not None: dumps[cur]['q'].append(ln)
            elif ln.startswith('A '): answers.append(ln.split())
        tans = [x for x in (ln.split() for ln in text.split('\n') if ln.startswith('T '))]
        lit_res = {(int(x[1]), int(x[2])): x[3] == '1' for x in (ln.split() for ln in text.split('\n') if ln.startswith('L '))}
        for (i, k, sv) in literals:
            if (i, k) not in lit_res or prop in ('C12', 'C06'): continue
            ast, t = items[i]; C['literal_overload_calls_observed'] += 1
            want = rr.RefDFA(ast).full_match(sv)
            if lit_res[(i, k)] != want:
                det = rr.Glushkov(ast).deterministic(); nested = nested_loop(ast)
                keys = [pattern_key(t)] + ([] if det else [CLASS_KEY]) + ([NESTED_KEY] if det and nested else [])
                out['viol'].append((keys, 'regex::expr<%r>.match(literal %r) = %s but the string %s in the language' % (t, sv, lit_res[(i, k)], 'is' if want else 'is not'),
                                    {'pattern': t.decode('latin-1'), 'pattern_hex': t.hex(), 'witness_hex': sv.hex(), 'matcher_says': lit_res[(i, k)]}))
        for i, (ast, t) in enumerate(items):
            C['evaluations'] += 1
            det = rr.Glushkov(ast).deterministic(); nested = nested_loop(ast)
            keys = [pattern_key(t)] + ([] if det else [CLASS_KEY]) + ([NESTED_KEY] if det and nested else [])
            d = dumps.get(i)
            if d is None: out['incon'].append('no dump for %r' % t); continue
            states = dg.parse_dfa_dump('\n'.join(d['q']))
            C['compile_time_automata_read'] += 1; C['automaton_states_observed'] += len(states)
            out['distinct'].append(common.sha(t)[:12])
            pred = int(d['hdr'][3]); actual = int(d['hdr'][4])
            if prop == 'C06': continue
            if prop == 'C12':
                if actual > pred:
                    out['viol'].append(([pattern_key(t)], 'regex::expr<%r>: dfa_size %d but %d states were built' % (t, pred, actual), {'pattern_hex': t.hex()}))
                continue
            if rres[i] and rres[i]['status'] == 'ok' and rres[i]['states'] is not None:
                if [(s_['rec'], s_['runs']) for s_ in rres[i]['states']] != [(s_['rec'], s_['runs']) for s_ in states]:
                    out['viol'].append(([pattern_key(t), 'site:regex::expr@ct-rt-differ'], 'pattern %r: automaton built during constant evaluation differs from the one built at run time' % t, {'pattern_hex': t.hex()}))
            w = rr.equivalent(refs[i], rr.ObsDFA(states))
            if w is not None:
                queries.append((i, w))
        # the regex_term inside a parser: the whole (non-empty) string is one token iff it is in the language
        tq = []
        for (i, s_) in queries[:len(answers)]:
            if i in with_parser:
                tq.append((i, s_, False))
                if lead.get(i): tq.append((i, s_, True))
        for (i, s_, second), a in zip(tq, tans):
            if second:
                # two-term parser: the string term wins only on its own spelling, every other member of the pattern's language is still one token
                if not s_ or len(s_) > 60000 or s_ == lead[i]: continue
                ast, t = items[i]; want = refs[i].full_match(s_); got = a[2] == '1'
                C['regex_term_after_a_string_term_calls_observed'] += 1
                if got != want:
                    det = rr.Glushkov(ast).deterministic(); nested = nested_loop(ast)
                    keys = [pattern_key(t)] + ([] if det else [CLASS_KEY]) + ([NESTED_KEY] if det and nested else [])
                    out['viol'].append((keys, 'regex_term<%r> listed after string_term %r %s %s but the string %s in the pattern language' % (t, lead[i], 'accepts' if got else 'rejects', short(s_), 'is' if want else 'is not'),
                                        {'pattern': t.decode('latin-1'), 'pattern_hex': t.hex(), 'witness_hex': s_.hex(), 'lead': lead[i].decode('latin-1')}))
                continue
            if not s_ or len(s_) > 60000: continue
            ast, t = items[i]; want = refs[i].full_match(s_); got = a[2] == '1'
            C['regex_term_in_parser_calls_observed'] += 1
            if got != want:
                det = rr.Glushkov(ast).deterministic(); nested = nested_loop(ast)
                keys = [pattern_key(t)] + ([] if det else [CLASS_KEY]) + ([NESTED_KEY] if det and nested else [])
                out['viol'].append((keys, 'regex_term<%r> as the only term of a parser %s %s but the string %s in the language' % (t, 'accepts' if got else 'rejects', short(s_), 'is' if want else 'is not'),
                                    {'pattern': t.decode('latin-1'), 'pattern_hex': t.hex(), 'witness_hex': s_.hex(), 'matcher_says': got}))
        # answers for the pre-planned queries
        for (i, s_), a in zip(queries, answers):
            ast, t = items[i]
            C['match_calls_observed'] += 1
            want = refs[i].full_match(s_)
            det = rr.Glushkov(ast).deterministic(); nested = nested_loop(ast)
            keys = [pattern_key(t)] + ([] if det else [CLASS_KEY]) + ([NESTED_KEY] if det and nested else [])
            got = a[3] == '1'
            if a[3] != a[4] or (len(a) > 11 and (a[10] != a[3] or a[11] != a[3])):
                out['viol'].append(([pattern_key(t)], 'pattern %r string %s: match() differs between buffer kinds / overloads (buffer; buffer+stream; options+buffer+stream): %s' % (t, short(s_), [a[3], a[4]] + a[10:12]), {'pattern_hex': t.hex(), 'string_hex': s_.hex()}))
            if len(a) > 12 and got and a[12] != '1' and a[10] == '1':
                out['viol'].append(([pattern_key(t)], 'pattern %r string %s: a successful non-verbose match() wrote to its stream' % (t, short(s_)), {'pattern_hex': t.hex(), 'string_hex': s_.hex()}))
            if int(a[6]) or int(a[7]) or int(a[8]):
                out['viol'].append(([pattern_key(t), 'site:regex::expr::match@overread'], 'pattern %r string %s: match() read outside the buffer' % (t, short(s_)), {'pattern_hex': t.hex(), 'string_hex': s_.hex()}))
            if got != want and prop not in ('C12', 'C06'):
                out['viol'].append((keys, 'regex::expr<%r>.match(%s) = %s but the string %s in the language' % (t, short(s_), got, 'is' if want else 'is not'),
                                    {'pattern': t.decode('latin-1'), 'pattern_hex': t.hex(), 'witness_hex': s_.hex(), 'matcher_says': got}))
        return out
    except Exception:
        return {'counts': {}, 'viol': [], 'samples': [], 'distinct': [], 'incon': ['regex ct worker: ' + traceback.format_exc()[-1500:]]}
