"""Per-property orchestration: workload sizes per tier, fan-out over cores, evidence."""
import random, json, os, itertools, collections
from . import common, gen_grammar as gg, pipeline, ref_lr1
from .common import Check

REGISTRY = {}
def register(name):
    def deco(f): REGISTRY[name] = f; return f
    return deco

def merge(check, outs):
    for o in outs:
        for k, v in o['counts'].items(): check.count(k, v)
        for keys, summ, rep in o['viol']: check.violation(keys, summ, rep)
        for s in o['samples']: check.sample(s)
        for h in o['distinct']: check.distinct(h)
        for w in o['incon']: check.note_inconclusive(w)

def grammar_batches(prop, tier, n_quick, n_thorough, per_tu, cfg, core=True, stream_kw=None, flavour='clang', filt=None):
    rnd = random.Random(common.seed() * 7919 + hash(prop) % 1000 if False else common.seed() * 7919 + sum(map(ord, prop)))
    want = n_quick if tier == 'quick' else n_thorough
    gs = list(gg.core_grammars()) if core else []
    if filt: gs = [g for g in gs if filt(g, ref_lr1.build(g))]
    st = gg.grammar_stream(rnd, **(stream_kw or {}))
    seen = {g.key() for g in gs}
    while len(gs) < want:
        g, tb = next(st)
        if g.key() in seen: continue
        if filt and not filt(g, tb): continue
        seen.add(g.key()); gs.append(g)
    specs = []
    for i in range(0, len(gs), per_tu):
        specs.append({'prop': prop, 'grammars': [g.to_json() for g in gs[i:i + per_tu]], 'seed': common.seed() * 100003 + i,
                      'flavour': flavour, 'cfg': cfg})
    return specs

@register('C01')
def c01(tier):
    ck = Check('C01', tier)
    cfg = {'modes': [0], 'exh_cap': 300 if tier == 'quick' else 700, 'exh_len': 5 if tier == 'quick' else 6,
           'n_rand': 30, 'n_mut': 60, 'long': (30, 120) if tier == 'quick' else (60, 400, 1500)}
    specs = grammar_batches('C01', tier, 192, 3000, 8, cfg)
    outs = common.pmap(pipeline.worker, specs)
    merge(ck, outs)
    ck.cov['rule'] = ('grammars: fixed core corpus + seeded random/mutated/spliced grammars, classified by a reference canonical LR(1) construction; '
                      'inputs: all term strings up to a length bound, random derivations, one-token mutations, raw bytes; a case is (grammar, input bytes); '
                      'distinct_nontrivial counts distinct (grammar,input) pairs whose grammar has >= 6 LR(1) states')
    ck.assumptions += ['reference canonical LR(1) construction and driver (lib/vf/ref_lr1.py), cross-checked against an Earley recogniser in the self-test',
                       'char terms only: the lexer is trivial here; lexing is the subject of C04']
    return ck.finish(floor_events=1000)

def replay(prop, path):
    rep = json.load(open(path))
    print('replay of', path, '- re-running the full check for', prop, 'with seed', rep.get('seed'))
    os.environ['VERIF_SEED'] = str(rep.get('seed', 1))
    return REGISTRY[prop](rep.get('tier', 'quick'))
