"""Per-property orchestration: workload sizes per tier, fan-out over cores, evidence."""
import random, json, os, itertools, collections
from . import common, gen_grammar as gg, pipeline, ref_lr1
from .common import Check

REGISTRY = {}
def register(name):
    def deco(f): REGISTRY[name] = f; return f
    return deco

def merge(check, outs):
    for o in outs:
        for k, v in o['counts'].items(): check.count(k, v)
        for keys, summ, rep in o['viol']: check.violation(keys, summ, rep)
        for s in o['samples']: check.sample(s)
        for h in o['distinct']: check.distinct(h)
        for w in o['incon']: check.note_inconclusive(w)

def grammar_batches(prop, tier, n_quick, n_thorough, per_tu, cfg, core=True, stream_kw=None, flavour='clang', filt=None):
    rnd = random.Random(common.seed() * 7919 + hash(prop) % 1000 if False else common.seed() * 7919 + sum(map(ord, prop)))
    want = n_quick if tier == 'quick' else n_thorough
    gs = list(gg.core_grammars()) if core else []
    if filt: gs = [g for g in gs if filt(g, ref_lr1.build(g))]
    st = gg.grammar_stream(rnd, **(stream_kw or {}))
    seen = {g.key() for g in gs}
    while len(gs) < want:
        g, tb = next(st)
        if g.key() in seen: continue
        if filt and not filt(g, tb): continue
        seen.add(g.key()); gs.append(g)
    specs = []
    for i in range(0, len(gs), per_tu):
        specs.append({'prop': prop, 'grammars': [g.to_json() for g in gs[i:i + per_tu]], 'seed': common.seed() * 100003 + i,
                      'flavour': flavour, 'cfg': cfg})
    return specs


def gen_grammars(prop, tier, n, profile):
    """deterministic (seed, property) list of grammars for a profile"""
    rnd = random.Random(common.seed() * 7919 + sum(map(ord, prop)))
    out = []; seen = set()
    def add(g):
        k = g.key()
        if k in seen: return
        seen.add(k); out.append(g)
    core = gg.core_grammars()
    if profile == 'plain':
        for g in core: add(g)
        st = gg.grammar_stream(rnd)
        while len(out) < n: add(next(st)[0])
    elif profile == 'allclasses':
        for g in core: add(g)
        st = gg.grammar_stream(rnd, want_lr1=0.35)
        while len(out) < n:
            g, tb = next(st)
            if rnd.random() < 0.3: g = gg.with_precedence(g, rnd)
            add(g)
            if rnd.random() < 0.15: add(gg.expr_grammar(rnd))
            if rnd.random() < 0.1: add(gg.add_error_rules(g, rnd))
    elif profile == 'decorated':
        for g in core:
            if ref_lr1.build(g).lr1: add(gg.decorate(g, rnd))
        st = gg.grammar_stream(rnd, want_lr1=0.9)
        while len(out) < n:
            g, tb = next(st)
            add(gg.decorate(g, rnd))
    elif profile == 'values':     # C14: decorated + error rules + move-only instantiations
        for g in gg.err_core(): add(gg.decorate(g, rnd, strings=0))
        st = gg.grammar_stream(rnd, want_lr1=0.9)
        while len(out) < n:
            g, tb = next(st)
            x = rnd.random()
            if x < 0.3: g = gg.add_error_rules(g, rnd)
            g = gg.decorate(g, rnd, typed=0.4)
            if rnd.random() < 0.3:
                g.vtypes = ['M'] * len(g.nts); g.tvtype = 'M'
                g.rules = [gg.Rule(r.lhs, r.rhs, r.prec, 'f') for r in g.rules]
            tb = ref_lr1.build(g)
            if gg.classify(tb) in ('rr', 'acc'): continue
            add(g)
    elif profile == 'positions':  # C10
        for g in positions_core(): add(g)
        for g in gg.err_core(): add(g)
        st = gg.grammar_stream(rnd, want_lr1=0.9)
        while len(out) < n:
            g, tb = next(st)
            if rnd.random() < 0.2: g = gg.add_error_rules(g, rnd)
            g = gg.decorate(g, rnd, vtypes=False, dflt=0, strings=0.4)
            if rnd.random() < 0.3: g = multiline_terms(g, rnd)
            if gg.classify(ref_lr1.build(g)) in ('rr', 'acc'): continue
            add(g)
    elif profile == 'verbose':    # C16
        for g in core: add(g)
        for g in gg.err_core(): add(g)
        st = gg.grammar_stream(rnd, want_lr1=0.8)
        while len(out) < n:
            g, tb = next(st)
            if rnd.random() < 0.25: g = gg.add_error_rules(g, rnd)
            if rnd.random() < 0.5: g = gg.decorate(g, rnd)
            if gg.classify(ref_lr1.build(g)) in ('rr', 'acc'): continue
            add(g)
    return out[:max(n, 0)] if profile != 'plain' else out

def positions_core():
    from .grammar import Grammar, Rule, Term
    out = []
    # newline as a term (meaningful with skip_newline=false)
    g = Grammar(['S', 'L'], [Term('c', 'a'), Term('c', '\n'), Term('c', 'b')],
                [Rule(0, [('n', 1)]), Rule(1, []), Rule(1, [('n', 1), ('t', 0), ('t', 1)]), Rule(1, [('n', 1), ('t', 2)])], 0, note='poscore:newline-term')
    out.append(g)
    # multi-line lexemes
    g = Grammar(['S'], [Term('s', 'A\nB'), Term('c', 'x'), Term('s', '\n\n', typed=True), Term('s', 'q\tr')],
                [Rule(0, []), Rule(0, [('n', 0), ('t', 0)]), Rule(0, [('n', 0), ('t', 1)]), Rule(0, [('n', 0), ('t', 2)]), Rule(0, [('n', 0), ('t', 3)])], 0, note='poscore:multiline')
    out.append(g)
    g = Grammar(['S'], [Term('c', '\r'), Term('c', '\t'), Term('c', 'x'), Term('c', ' ')],
                [Rule(0, []), Rule(0, [('n', 0), ('t', 0)]), Rule(0, [('n', 0), ('t', 1)]), Rule(0, [('n', 0), ('t', 2)]), Rule(0, [('n', 0), ('t', 3)])], 0, note='poscore:whitespace-terms')
    out.append(g)
    return out

def multiline_terms(g, rnd):
    g = gg.clone(g)
    used = {t.text for t in g.terms}
    for j, t in enumerate(g.terms):
        if t.kind == 's' and rnd.random() < 0.6:
            k = rnd.randrange(1, len(t.text))
            txt = t.text[:k] + rnd.choice(['\n', '\n\n', '\t', '\r\n']) + t.text[k:]
            if txt not in used: g.terms[j] = gg.Term('s', txt, t.prec, t.assoc, None, t.typed); used.add(txt)
    return g

def run_pipeline(prop, tier, grammars, cfg, per_tu=8, flavour='clang'):
    specs = []
    for i in range(0, len(grammars), per_tu):
        specs.append({'prop': prop, 'grammars': [g.to_json() for g in grammars[i:i + per_tu]], 'seed': common.seed() * 100003 + i,
                      'flavour': flavour, 'cfg': cfg})
    return common.pmap(pipeline.worker, specs)

REF_ASSUME = ['reference canonical LR(1) construction, driver and lexer model (lib/vf/ref_lr1.py, lib/vf/model.py); the driver is cross-checked against an Earley recogniser by tools/setup.py',
              'only grammars whose dumped table equals the reference table are judged here; table differences are reported by C01/C05/C11']

@register('C01')
def c01(tier):
    ck = Check('C01', tier)
    q = tier == 'quick'
    cfg = {'modes': [0], 'exh_cap': 300 if q else 700, 'exh_len': 5 if q else 6, 'n_rand': 40, 'n_mut': 60, 'long': (30, 120) if q else (60, 400, 1500)}
    merge(ck, run_pipeline('C01', tier, gen_grammars('C01', tier, 320 if q else 4000, 'plain'), cfg))
    ck.cov['rule'] = ('grammars: fixed core corpus + seeded random/mutated/spliced grammars, classified by a reference canonical LR(1) construction; '
                      'inputs: all term strings up to a length bound, random derivations, one-token mutations, raw bytes; a case is (grammar, input bytes); '
                      'distinct_nontrivial counts distinct (grammar,input) pairs whose grammar has >= 6 LR(1) states')
    ck.assumptions += REF_ASSUME[:1] + ['char terms only: the lexer is trivial here; lexing is the subject of C04']
    return ck.finish(floor_events=1000)

@register('C02')
def c02(tier):
    ck = Check('C02', tier)
    q = tier == 'quick'
    cfg = {'modes': [0], 'exh_cap': 200 if q else 500, 'exh_len': 5, 'n_rand': 60, 'n_mut': 40, 'long': (30, 200) if q else (100, 1000, 5000)}
    merge(ck, run_pipeline('C02', tier, gen_grammars('C02', tier, 256 if q else 3000, 'decorated'), cfg))
    ck.cov['rule'] = ('grammars as C01, decorated with mixed value types (two tracked types, long), rules without functor, typed terms, string terms; '
                      'every functor logs (rule, ids of its arguments in order) and returns a fresh id; the log of each parse is compared with the post-order '
                      'evaluation of the reference derivation tree; distinct_nontrivial = distinct accepted (grammar,input) pairs with >= 3 reductions')
    ck.assumptions += REF_ASSUME
    return ck.finish(floor_events=1000)

@register('C09')
def c09(tier):
    ck = Check('C09', tier)
    q = tier == 'quick'
    cfg = {'modes': [0, 4], 'exh_cap': 300 if q else 600, 'exh_len': 5, 'n_rand': 30, 'n_mut': 80, 'long': (30, 120), 'n_raw': 16}
    gs = gen_grammars('C09', tier, 160 if q else 2000, 'plain') + gen_grammars('C09', tier, 96 if q else 1000, 'decorated')
    merge(ck, run_pipeline('C09', tier, gs, cfg))
    ck.cov['rule'] = ('LR(1) grammars without error rules (char, string and typed terms); every input is parsed with a std::ostringstream; the complete stream text must equal '
                      'the single expected message (or nothing), with the offending term decided by the reference; the bounds-monitoring buffer records how far the '
                      'input was examined; distinct_nontrivial = distinct rejected (grammar,input) pairs')
    ck.assumptions += REF_ASSUME
    return ck.finish(floor_events=1000)

@register('C10')
def c10(tier):
    ck = Check('C10', tier)
    q = tier == 'quick'
    cfg = {'modes': [0, 7, 8, 9], 'exh_cap': 120 if q else 300, 'exh_len': 4, 'n_rand': 40, 'n_mut': 40, 'long': (30, 120) if q else (100, 600),
           'n_ws': 400, 'ws': 0.6, 'n_raw': 10}
    merge(ck, run_pipeline('C10', tier, gen_grammars('C10', tier, 128 if q else 1500, 'positions'), cfg))
    ck.cov['rule'] = ('grammars with char/string/typed terms, multi-line lexemes, newline and whitespace characters as terms, error rules; inputs dense in space, tab, CR, LF, VT, FF; '
                      'all four skip_whitespace x skip_newline settings; every term value seen by a functor and every message position is compared with line/column computed from the '
                      'byte offset; distinct_nontrivial = distinct (grammar,input,options) with at least one term on a line > 1')
    ck.assumptions += REF_ASSUME
    return ck.finish(floor_events=1000)

@register('C11')
def c11(tier):
    ck = Check('C11', tier)
    q = tier == 'quick'
    cfg = {'modes': [1], 'exh_cap': 40, 'exh_len': 4, 'n_rand': 12, 'n_mut': 12, 'long': (20,), 'n_ws': 2, 'n_raw': 2}
    merge(ck, run_pipeline('C11', tier, gen_grammars('C11', tier, 320 if q else 4000, 'allclasses'), cfg))
    ck.cov['rule'] = ('grammars of all classes (conflict-free, S/R with random precedence, R/R, cyclic); write_diag_str text is parsed back and compared (a) with the reference LR(1) '
                      'states/items/actions/conflicts, (b) cell by cell with the raw table read through the hook, (c) with the actions of verbose traces of real parses; '
                      'a case is one grammar; distinct_nontrivial = distinct grammars with a conflict or >= 6 states')
    ck.assumptions += REF_ASSUME[:1]
    return ck.finish(floor_events=100)

@register('C14')
def c14(tier):
    ck = Check('C14', tier)
    q = tier == 'quick'
    cfg = {'modes': [0], 'exh_cap': 150 if q else 400, 'exh_len': 5, 'n_rand': 40, 'n_mut': 80, 'long': (30, 200) if q else (100, 2000)}
    merge(ck, run_pipeline('C14', tier, gen_grammars('C14', tier, 192 if q else 2500, 'values'), cfg, flavour='asan' if not q else 'clang'))
    ck.cov['rule'] = ('grammars with tracked value types (copyable and move-only), typed terms, default functors and error rules; every value gets a unique id in a registry; '
                      'after each parse (success, failure, recovery) the registry must balance: no object or payload alive, no library-made copy, no id consumed twice, '
                      'no moved-from argument; distinct_nontrivial = distinct (grammar,input) runs that created >= 2 values')
    ck.assumptions += REF_ASSUME[1:]
    return ck.finish(floor_events=1000)

@register('C16')
def c16(tier):
    ck = Check('C16', tier)
    q = tier == 'quick'
    cfg = {'modes': [0, 1, 2, 5, 6], 'exh_cap': 100 if q else 300, 'exh_len': 4, 'n_rand': 30, 'n_mut': 40, 'long': (30, 100) if q else (100, 500)}
    merge(ck, run_pipeline('C16', tier, gen_grammars('C16', tier, 160 if q else 2000, 'verbose'), cfg))
    ck.cov['rule'] = ('each (grammar,input) runs under verbose on/off x {no stream, std::ostringstream, user stream type}; results and functor logs must be identical; the verbose text is '
                      'parsed into recognised/shift/reduce/goto/recovery events and compared with the action sequence of the reference driver (states renamed through the table '
                      'isomorphism) and with the functor log; distinct_nontrivial = distinct (grammar,input) with >= 6 trace events')
    ck.assumptions += REF_ASSUME
    return ck.finish(floor_events=1000)

def replay(prop, path):
    rep = json.load(open(path))
    print('replay of', path, '- re-running the full check for', prop, 'with seed', rep.get('seed'))
    os.environ['VERIF_SEED'] = str(rep.get('seed', 1))
    return REGISTRY[prop](rep.get('tier', 'quick'))
