"""Per-property orchestration: workload sizes per tier, fan-out over cores, evidence."""
import random, json, os, itertools, collections, re, traceback
from . import common, gen_grammar as gg, pipeline, ref_lr1
from .common import Check

REGISTRY = {}
def register(name):
    def deco(f): REGISTRY[name] = f; return f
    return deco

def merge(check, outs):
    _merge(check, outs)
    # a check that had to skip most of its grammars observed too little to say "held"
    g = check.cov.get('grammars', 0); sk = check.cov.get('grammars_skipped', 0)
    if g >= 20 and sk > 0.6 * g and not any('skipped' in w for w in check.inconclusive):
        check.note_inconclusive('%d of %d grammars were skipped (tables/diagnostics not understood or not parseable): too little was observed' % (sk, g))

def _merge(check, outs):
    for o in outs:
        for k, v in o['counts'].items(): check.count(k, v)
        for keys, summ, rep in o['viol']: check.violation(keys, summ, rep)
        for s in o['samples']: check.sample(s)
        for h in o['distinct']: check.distinct(h)
        for w in o['incon']: check.note_inconclusive(w)

def grammar_batches(prop, tier, n_quick, n_thorough, per_tu, cfg, core=True, stream_kw=None, flavour='clang', filt=None):
    rnd = random.Random(common.seed() * 7919 + hash(prop) % 1000 if False else common.seed() * 7919 + sum(map(ord, prop)))
    want = n_quick if tier == 'quick' else n_thorough
    gs = list(gg.core_grammars()) if core else []
    if filt: gs = [g for g in gs if filt(g, ref_lr1.build(g))]
    st = gg.grammar_stream(rnd, **(stream_kw or {}))
    seen = {g.key() for g in gs}
    while len(gs) < want:
        g, tb = next(st)
        if g.key() in seen: continue
        if filt and not filt(g, tb): continue
        seen.add(g.key()); gs.append(g)
    specs = []
    for i in range(0, len(gs), per_tu):
        specs.append({'prop': prop, 'grammars': [g.to_json() for g in gs[i:i + per_tu]], 'seed': common.seed() * 100003 + i,
                      'flavour': flavour, 'cfg': cfg})
    return specs


def gen_grammars(prop, tier, n, profile):
    """deterministic (seed, property) list of grammars for a profile"""
    rnd = random.Random(common.seed() * 7919 + sum(map(ord, prop)))
    out = []; seen = set()
    def add(g):
        k = g.key()
        if k in seen: return
        seen.add(k); out.append(g)
    core = gg.core_grammars(wide=(profile in ('plain', 'allclasses')), heavy=(tier == 'thorough'))
    if profile in ('plain', 'allclasses'):
        base = [g for g in core if 2 <= len(g.nts) <= 5 and len(g.terms) <= 8]
        for k, total in enumerate([62, 63, 64, 126, 127]):
            h = gg.pad_terms(base[(k * 5 + common.seed()) % len(base)], total)
            if h is not None: core.append(h)
        # every term of a grammar in turn at index 64 (first bit of the second word of the term bit sets), one grammar at 63/128
        for gi_, b in enumerate([base[common.seed() % len(base)], base[(common.seed() * 3 + 7) % len(base)], base[(common.seed() * 5 + 11) % len(base)]]):
            for j in range(len(b.terms)):
                h = gg.pad_front(b, (64 if gi_ < 2 else (63 if j % 2 else 128)) - j)
                if h is not None: core.append(h)
    if profile == 'plain':
        for g in core: add(g)
        for g in core[:12]: add(gg.shuffle_symbols(g, rnd))
        st = gg.grammar_stream(rnd)
        while len(out) < n:
            g = next(st)[0]
            add(gg.shuffle_symbols(g, rnd) if rnd.random() < 0.35 else g)
    elif profile == 'allclasses':
        for g in core: add(g)
        st = gg.grammar_stream(rnd, want_lr1=0.35)
        while len(out) < n:
            g, tb = next(st)
            if rnd.random() < 0.3: g = gg.with_precedence(g, rnd)
            if rnd.random() < 0.3: g = gg.shuffle_symbols(g, rnd)
            add(g)
            if rnd.random() < 0.15: add(gg.expr_grammar(rnd))
            if rnd.random() < 0.1: add(gg.add_error_rules(g, rnd))
    elif profile == 'decorated':
        for g in core:
            if ref_lr1.build(g).lr1: add(gg.decorate(g, rnd))
        st = gg.grammar_stream(rnd, want_lr1=0.9)
        while len(out) < n:
            g, tb = next(st)
            g = gg.decorate(g, rnd, regexes=(0.35 if rnd.random() < 0.5 else 0))
            if rnd.random() < 0.3:
                h = gg.add_bag_list(g, rnd)
                if h is not None and gg.classify(ref_lr1.build(h)) in ('lr1', 'sr'): g = h
            if rnd.random() < 0.12: g = gg.long_names(g, rnd)
            if rnd.random() < 0.2:
                # some functors return a non-const lvalue reference to a table entry of theirs: the left-side value has to be a copy of it
                g = gg.clone(g)
                for i, r in enumerate(g.rules):
                    if r.ftor == 'f' and g.vtypes[r.lhs] in ('V', 'W') and rnd.random() < 0.3: g.rules[i] = gg.Rule(r.lhs, r.rhs, r.prec, 'lr')
            if rnd.random() < 0.5:
                g = gg.clone(g)
                for i, r in enumerate(g.rules):
                    if r.ftor == 'f' and g.vtypes[r.lhs] in ('V', 'W') and rnd.random() < 0.4: g.rules[i] = gg.Rule(r.lhs, r.rhs, r.prec, 'st')      # functor objects with state of their own
            add(g)
    elif profile == 'values':     # C14: decorated + error rules + move-only instantiations
        for g in gg.err_core(): add(gg.decorate(g, rnd, strings=0))
        st = gg.grammar_stream(rnd, want_lr1=0.9)
        while len(out) < n:
            g, tb = next(st)
            x = rnd.random()
            if x < 0.3: g = gg.add_error_rules(g, rnd)
            g = gg.decorate(g, rnd, typed=0.4, regexes=(0.3 if rnd.random() < 0.4 else 0), ctx=(0.4 if rnd.random() < 0.3 else 0.0))     # some with contextual (>>=) functors
            if rnd.random() < 0.3:
                g.vtypes = ['M'] * len(g.nts); g.tvtype = 'M'
                g.rules = [gg.Rule(r.lhs, r.rhs, r.prec, 'f') for r in g.rules]
            elif rnd.random() < 0.3:
                h = gg.add_bag_list(g, rnd, copying=False)
                if h is not None: g = h
            tb = ref_lr1.build(g)
            if gg.classify(tb) in ('rr', 'acc'): continue
            if 'W' in g.vtypes and rnd.random() < 0.5:
                # a copyable value type whose move constructor is not noexcept (the parser's value variant then has a potentially throwing move too)
                g.vtypes = ['X' if v == 'W' else v for v in g.vtypes]
                g.rules = [gg.Rule(r.lhs, r.rhs, r.prec, 'cX' if r.ftor == 'cW' else r.ftor) for r in g.rules]
            add(g)
    elif profile == 'positions':  # C10
        for g in positions_core(): add(g)
        for g in gg.err_core(): add(g)
        st = gg.grammar_stream(rnd, want_lr1=0.9)
        while len(out) < n:
            g, tb = next(st)
            if rnd.random() < 0.45: g = gg.add_error_rules(g, rnd)
            g = gg.decorate(g, rnd, vtypes=False, dflt=0, strings=0.5, regexes=(0.4 if rnd.random() < 0.5 else 0))
            if rnd.random() < 0.6: g = multiline_terms(g, rnd)
            if rnd.random() < 0.25: g = newline_term(g, rnd)
            if gg.classify(ref_lr1.build(g)) in ('rr', 'acc'): continue
            if rnd.random() < 0.15 and all(t.kind == 'c' for t in g.terms):
                # positions are the parser's business also when the lexemes come from a custom lexer (lexemes that swallow newlines included)
                g = gg.to_custom_lexer(g, rnd)
            add(g)
    elif profile == 'precedence':   # C05
        for g in core:
            if gg.classify(ref_lr1.build(g)) == 'sr': add(g); add(gg.with_precedence(g, rnd))
        st = gg.grammar_stream(rnd, want_lr1=0.0)
        while len(out) < n:
            x = rnd.random()
            if x < 0.6: g = gg.expr_grammar(rnd)
            elif x < 0.7: g = gg.dangling_else(rnd)
            else:
                g, tb = next(st)
                if gg.classify(tb) != 'sr': continue
                g = gg.with_precedence(g, rnd)
            if gg.classify(ref_lr1.build(g)) in ('rr', 'acc'): continue
            if rnd.random() < 0.3:
                # the way a functor is attached ('>=' or '>>=', before or after an explicit [n]) must not matter for the table
                g = gg.clone(g)
                for i, r in enumerate(g.rules):
                    if rnd.random() < 0.6: g.rules[i] = gg.Rule(r.lhs, r.rhs, r.prec, 'x')
                g.note += '+ctxftors'
            elif rnd.random() < 0.3 and len({t.text[0] for t in g.terms}) == len(g.terms) and not any(t.kind == 'r' for t in g.terms):
                # precedence and associativity declared on custom terms (use_lexer) must resolve conflicts like on any other term
                g = gg.to_custom_lexer(g, rnd)
                tm = g.lexspec[0]
                g.lexspec = (tm, [len(g.terms[tm[b]].text) if tm[b] >= 0 and ord(g.terms[tm[b]].text[0]) == b else 1 for b in range(256)])
            add(g)
    elif profile == 'recovery':     # C08
        for g in gg.err_core(): add(g)
        for g in gg.err_core(): add(gg.decorate(g, rnd, strings=0, typed=0.7, dflt=0.1))
        # term counts that put <eof> / the error token at the boundaries of the machine words of the term bit sets
        ec = gg.err_core()
        for total in (63, 127):        # the error token alone in the last word
            for g in ec:
                h = gg.pad_terms(g, total)
                if h is not None: add(h)
        for k, total in enumerate([62, 64, 61, 126, 128]):
            h = gg.pad_terms(ec[(k * 3 + common.seed()) % len(ec)], total)
            if h is not None: add(h)
        st = gg.grammar_stream(rnd, want_lr1=0.9)
        while len(out) < n:
            g, tb = next(st)
            g = gg.add_error_rules(g, rnd)
            if rnd.random() < 0.5: g = gg.decorate(g, rnd, strings=0.1, typed=0.5)
            if gg.classify(ref_lr1.build(g)) in ('rr', 'acc'): continue
            add(g)
    elif profile == 'context':      # C13
        st = gg.grammar_stream(rnd, want_lr1=0.9)
        for g in core[:10]: add(gg.decorate(g, rnd, ctx=0.6))
        while len(out) < n:
            g, tb = next(st)
            if rnd.random() < 0.15: g = gg.add_error_rules(g, rnd)
            g = gg.decorate(g, rnd, ctx=(0.6 if rnd.random() < 0.8 else 0.0))
            if gg.classify(ref_lr1.build(g)) in ('rr', 'acc'): continue
            add(g)
    elif profile == 'customlexer':   # C18
        st = gg.grammar_stream(rnd, want_lr1=0.85)
        for g in core[:12] + gg.err_core()[:4]:
            if gg.classify(ref_lr1.build(g)) not in ('rr', 'acc'): add(gg.to_custom_lexer(g, rnd))
        st2 = gg.grammar_stream(rnd, want_lr1=0.0)
        # precedence / associativity declared on custom terms, including the default precedence 0 with an associativity
        from .grammar import simple
        for spec, pa in (('E->E - E | E + E | i', {'-': (0, 'l'), '+': (0, 'r')}), ('E->E - E | E * E | i', {'-': (0, 'l'), '*': (1, 'l')}),
                         ('E->E - E | E ^ E | - E | i', {'-': (-1, 'l'), '^': (0, 'r')}), ('E->E < E | i', {'<': (0, 'n')})):
            g = simple(spec)
            for j, t in enumerate(g.terms):
                if t.text in pa: g.terms[j] = gg.Term('c', t.text, pa[t.text][0], pa[t.text][1])
            g = gg.to_custom_lexer(g, rnd); tm = g.lexspec[0]
            g.lexspec = (tm, [1] * 256); g.note = 'c18:precedence-on-custom-terms'
            add(g)
        while len(out) < n:
            g, tb = next(st)
            if rnd.random() < 0.25:
                # grammars with S/R conflicts resolved by precedence/associativity of the custom terms
                x = rnd.random()
                if x < 0.5:
                    g = gg.expr_grammar(rnd)
                    if len({t.text[0] for t in g.terms}) != len(g.terms) or any(t.kind == 'r' for t in g.terms): continue
                else:
                    g, tb = next(st2)
                    if gg.classify(tb) != 'sr': continue
                    g = gg.with_precedence(g, rnd)
                g.rules = [gg.Rule(r.lhs, r.rhs, r.prec, 'f') for r in g.rules]
            if rnd.random() < 0.25: g = gg.add_error_rules(g, rnd)
            if rnd.random() < 0.4: g = gg.decorate(g, rnd, strings=0, typed=0)
            if gg.classify(ref_lr1.build(g)) in ('rr', 'acc'): continue
            g = gg.to_custom_lexer(g, rnd)
            if rnd.random() < 0.25: g = gg.long_names(g, rnd)
            add(g)
    elif profile == 'verbose':    # C16
        for g in core: add(g)
        for g in gg.err_core(): add(g)
        st = gg.grammar_stream(rnd, want_lr1=0.8)
        while len(out) < n:
            g, tb = next(st)
            if rnd.random() < 0.25: g = gg.add_error_rules(g, rnd)
            if rnd.random() < 0.5: g = gg.decorate(g, rnd, regexes=(0.35 if rnd.random() < 0.5 else 0))
            if gg.classify(ref_lr1.build(g)) in ('rr', 'acc'): continue
            add(g)
    return out[:max(n, 0)] if profile != 'plain' else out

def positions_core():
    from .grammar import Grammar, Rule, Term
    out = []
    # newline as a term (meaningful with skip_newline=false)
    g = Grammar(['S', 'L'], [Term('c', 'a'), Term('c', '\n'), Term('c', 'b')],
                [Rule(0, [('n', 1)]), Rule(1, []), Rule(1, [('n', 1), ('t', 0), ('t', 1)]), Rule(1, [('n', 1), ('t', 2)])], 0, note='poscore:newline-term')
    out.append(g)
    # multi-line lexemes
    g = Grammar(['S'], [Term('s', 'A\nB'), Term('c', 'x'), Term('s', '\n\n', typed=True), Term('s', 'q\tr')],
                [Rule(0, []), Rule(0, [('n', 0), ('t', 0)]), Rule(0, [('n', 0), ('t', 1)]), Rule(0, [('n', 0), ('t', 2)]), Rule(0, [('n', 0), ('t', 3)])], 0, note='poscore:multiline')
    out.append(g)
    # error recovery that discards multi-line lexemes and newline terms
    g = Grammar(['L', 'I'], [Term('c', 'x'), Term('c', ';'), Term('s', 'q\nr'), Term('c', '\n'), Term('s', '\n\nZ')],
                [Rule(0, []), Rule(0, [('n', 0), ('n', 1)]), Rule(1, [('t', 0), ('t', 1)]), Rule(1, [('e',), ('t', 1)]), Rule(1, [('t', 0), ('t', 2), ('t', 1)]),
                 Rule(1, [('t', 0), ('t', 3), ('t', 1)]), Rule(1, [('t', 4), ('t', 1)])], 0, note='poscore:recovery-multiline')
    out.append(g)
    g = Grammar(['S'], [Term('c', '\r'), Term('c', '\t'), Term('c', 'x'), Term('c', ' ')],
                [Rule(0, []), Rule(0, [('n', 0), ('t', 0)]), Rule(0, [('n', 0), ('t', 1)]), Rule(0, [('n', 0), ('t', 2)]), Rule(0, [('n', 0), ('t', 3)])], 0, note='poscore:whitespace-terms')
    out.append(g)
    return out

def nonprintable_terms(g, rnd):
    """turn one or two char terms into non-printable bytes (their names are rendered as \\xHH in messages); whitespace bytes are terms
    only under the options that do not skip them"""
    g = gg.clone(g)
    cands = [j for j, t in enumerate(g.terms) if t.kind == 'c']
    rnd.shuffle(cands)
    used = {t.text for t in g.terms}
    for j in cands[:rnd.choice([1, 1, 2])]:
        pool = [0x0a, 0x09, 0x0d] if rnd.random() < 0.3 else list(range(1, 9)) + list(range(0x0e, 0x20)) + [0x7f] + list(range(0x80, 0x100))
        b = chr(rnd.choice(pool))
        if b in used: continue
        t = g.terms[j]; used.add(b); g.terms[j] = gg.Term('c', b, t.prec, t.assoc, None, t.typed)
    g.note += '+nonprintable'
    return g

def backtrack_terms(g, rnd):
    """one char term a becomes the regex a(ba)? where b is another char term: after an 'a' the lexer reads a 'b' that it has to give back
    unless another 'a' follows (longest match with back-tracking over a non-accepting state)"""
    g = gg.clone(g)
    cands = [j for j, t in enumerate(g.terms) if t.kind == 'c' and t.text.isalnum() and not t.typed]
    if len(cands) >= 2 and not any(t.kind == 'r' for t in g.terms):
        ja, jb = rnd.sample(cands, 2); a, b = g.terms[ja], g.terms[jb]
        g.terms[ja] = gg.Term('r', '%s(%s%s)?' % (a.text, b.text, a.text), a.prec, a.assoc, None, a.typed)
        # helper functors chosen for a char term's value type (_eK picking the term) no longer fit a string-view lexeme: plain logging functors there
        g.rules = [gg.Rule(r.lhs, r.rhs, r.prec, 'f' if (r.ftor[0] == 'e' and r.ftor[1:].isdigit()) else r.ftor) for r in g.rules]
        g.note += '+backtrack'
    return g

def newline_term(g, rnd):
    """turn one char term into the newline character (a term only when newlines are not skipped)"""
    g = gg.clone(g)
    cands = [j for j, t in enumerate(g.terms) if t.kind == 'c']
    if cands and not any(t.text == '\n' for t in g.terms):
        j = rnd.choice(cands); t = g.terms[j]; g.terms[j] = gg.Term('c', '\n', t.prec, t.assoc, None, t.typed)
    return g

def multiline_terms(g, rnd):
    g = gg.clone(g)
    used = {t.text for t in g.terms}
    for j, t in enumerate(g.terms):
        if t.kind == 's' and rnd.random() < 0.6:
            k = rnd.randrange(1, len(t.text))
            txt = t.text[:k] + rnd.choice(['\n', '\n\n', '\t', '\r\n']) + t.text[k:]
            if txt not in used: g.terms[j] = gg.Term('s', txt, t.prec, t.assoc, None, t.typed); used.add(txt)
    return g

def deep_specs(prop, tier, modes=(0,)):
    """inputs that drive the parse stacks beyond 65536 entries (right recursion, nesting) and very long left-recursive lists"""
    from .grammar import simple
    rnd = random.Random(common.seed() + 77)
    q = tier == 'quick'
    n1 = rnd.randint(66000, 70000) if q else rnd.randint(120000, 200000)
    cases = [
        ('L->a L | b', lambda n: b'a' * n + b'b', n1),
        ('L->a L | eps', lambda n: b'a' * n, n1 + 3),
        ('S->( S ) | a', lambda n: b'(' * n + b'a' + b')' * n, n1 // 2 + 33000),
        ('L->L a | a', lambda n: b'a' * n, 3 * n1),
        ('S->eps | E F G ( S )\nE->eps\nF->eps\nG->eps', lambda n: b'(' * n + b')' * n, 20000 if q else 60000),
        ('E->T + E | T\nT->i | ( E )', lambda n: b'i+' * n + b'(i+i)', n1),
        # a reduction at every stack depth (unit level under right recursion), lengths around the growth steps of the value stack
        ('L->I L | I\nI->a', lambda n: b'a' * n, 1024), ('L->I L | I\nI->a', lambda n: b'a' * n, 2049), ('L->I s L | I\nI->a | b I', lambda n: b'as' * n + b'ba', 1023),
        ('L->I L | I\nI->a', lambda n: b'a' * n, 4097 if q else 70001),
    ]
    specs = []
    for i, (spec, mk, n) in enumerate(cases):
        g = simple(spec); g.note = 'deep'
        if i % 2 == 1: g = gg.decorate(g, rnd, strings=0, typed=0.5)
        inputs = [mk(n), mk(n)[:-1], mk(7), mk(max(1, n - 1)), mk(n + 1), mk(n // 2 + 1)]
        specs.append({'prop': prop, 'grammars': [g.to_json()], 'seed': 1, 'flavour': 'clang1', 'cfg': {'modes': list(modes), 'timeout': 900},
                      'explicit_inputs': [[d.hex() for d in inputs]]})
    return specs

def run_pipeline(prop, tier, grammars, cfg, per_tu=8, flavour='clang'):
    specs = []
    for i in range(0, len(grammars), per_tu):
        specs.append({'prop': prop, 'grammars': [g.to_json() for g in grammars[i:i + per_tu]], 'seed': common.seed() * 100003 + i,
                      'flavour': flavour, 'cfg': cfg,
                      # every fourth parser of the table-oriented checks is constructed at run time (new parser(...)) instead of constexpr
                      'runtime_ctor': [k for k in range(per_tu) if k % 4 == 3] if prop in ('C01', 'C11', 'C05', 'C13', 'C02') else []})
    return common.pmap(pipeline.worker, specs)

REF_ASSUME = ['reference canonical LR(1) construction, driver and lexer model (lib/vf/ref_lr1.py, lib/vf/model.py); the driver is cross-checked against an Earley recogniser by tools/setup.py',
              'only grammars whose dumped table equals the reference table are judged here; table differences are reported by C01/C05/C11']

@register('C01')
def c01(tier):
    ck = Check('C01', tier)
    q = tier == 'quick'
    cfg = {'modes': [0], 'exh_cap': 300 if q else 700, 'exh_len': 5 if q else 6, 'n_rand': 40, 'n_mut': 60, 'long': (30, 120) if q else (60, 400, 1500)}
    merge(ck, run_pipeline('C01', tier, gen_grammars('C01', tier, 800 if q else 6000, 'plain'), cfg))
    ck.cov['rule'] = ('grammars: fixed core corpus + seeded random/mutated/spliced grammars, classified by a reference canonical LR(1) construction; '
                      'inputs: all term strings up to a length bound, random derivations, one-token mutations, raw bytes; a case is (grammar, input bytes); '
                      'distinct_nontrivial counts distinct (grammar,input) pairs whose grammar has >= 6 LR(1) states')
    ck.assumptions += REF_ASSUME[:1] + ['char terms only: the lexer is trivial here; lexing is the subject of C04']
    return ck.finish(floor_events=1000)

@register('C02')
def c02(tier):
    ck = Check('C02', tier)
    q = tier == 'quick'
    cfg = {'modes': [0, 3, 4], 'exh_cap': 200 if q else 500, 'exh_len': 5, 'n_rand': 60, 'n_mut': 40, 'long': (30, 200) if q else (100, 1000, 5000)}
    merge(ck, run_pipeline('C02', tier, gen_grammars('C02', tier, 256 if q else 3000, 'decorated'), cfg))
    merge(ck, common.pmap(pipeline.worker, deep_specs('C02', tier)))
    merge(ck, common.pmap(functor_identity_worker, ['clang', 'gxx0']))
    merge(ck, common.pmap(api_probe_worker, [(fl, ('functor-less-rule', 'reference-into')) for fl in ('clang', 'gxx0')]))
    ck.cov['rule'] = ('grammars as C01, decorated with mixed value types (two tracked types, long), rules without functor, typed terms, string terms; '
                      'every functor logs (rule, ids of its arguments in order) and returns a fresh id; the log of each parse is compared with the post-order '
                      'evaluation of the reference derivation tree; distinct_nontrivial = distinct accepted (grammar,input) pairs with >= 3 reductions')
    ck.assumptions += REF_ASSUME
    return ck.finish(floor_events=1000)

@register('C09')
def c09(tier):
    ck = Check('C09', tier)
    q = tier == 'quick'
    cfg = {'modes': [0, 3, 4, 8, 9], 'exh_cap': 300 if q else 600, 'exh_len': 5, 'n_rand': 30, 'n_mut': 80, 'long': (30, 120), 'n_raw': 16, 'long_gap': 2}
    gs = gen_grammars('C09', tier, 160 if q else 2000, 'plain') + gen_grammars('C09', tier, 96 if q else 1000, 'decorated')
    rnd = random.Random(common.seed() * 9001 + 9)
    gs = [nonprintable_terms(g, rnd) if (i % 4 == 1 and len(g.terms) <= 12 and not getattr(g, 'lexspec', None)) else g for i, g in enumerate(gs)]
    gs = [backtrack_terms(g, rnd) if (i % 4 == 2 and len(g.terms) <= 12 and not getattr(g, 'lexspec', None)) else g for i, g in enumerate(gs)]
    merge(ck, run_pipeline('C09', tier, gs, cfg))
    merge(ck, common.pmap(api_probe_worker, [(fl, ('chained-setters', 'successful-non-verbose')) for fl in ('clang', 'gxx0')]))      # options set through chains of setters on a named object
    # one lexeme of the generated lexer of 65534..65537 (and more) bytes, in accepted, syntactically and lexically wrong inputs
    from .grammar import simple
    lg = simple('S->w , | S w ,')
    lg.terms = [gg.Term('r', '[a-z]+', name='word') if t.text == 'w' else t for t in lg.terms]; lg.note = 'c09:long-lexeme'
    lin = []
    for n in (65534, 65535, 65536, 65537, 131071):
        w = bytes(rnd.choice(b'abcxyz') for _ in range(n))
        lin += [w + b',', b'ab,' + w + b',cd,', w + b' ,,', w + b'?', w]
    merge(ck, common.pmap(pipeline.worker, [{'prop': 'C09', 'grammars': [lg.to_json()], 'seed': 1, 'flavour': 'clang1', 'cfg': {'modes': [0, 3, 4], 'timeout': 600}, 'explicit_inputs': [[d.hex() for d in lin]]}]))
    ck.cov['rule'] = ('LR(1) grammars without error rules (char, string and typed terms); every input is parsed with a std::ostringstream; the complete stream text must equal '
                      'the single expected message (or nothing), with the offending term decided by the reference; the bounds-monitoring buffer records how far the '
                      'input was examined; distinct_nontrivial = distinct rejected (grammar,input) pairs')
    ck.assumptions += REF_ASSUME
    return ck.finish(floor_events=1000)

@register('C10')
def c10(tier):
    ck = Check('C10', tier)
    q = tier == 'quick'
    cfg = {'modes': [0, 3, 4, 7, 8, 9], 'exh_cap': 120 if q else 300, 'exh_len': 4, 'n_rand': 40, 'n_mut': 40, 'long': (30, 120) if q else (100, 600),
           'n_ws': 400, 'ws': 0.6, 'n_raw': 10, 'long_gap': 2}
    merge(ck, run_pipeline('C10', tier, gen_grammars('C10', tier, 128 if q else 1500, 'positions'), cfg))
    ck.cov['rule'] = ('grammars with char/string/typed terms, multi-line lexemes, newline and whitespace characters as terms, error rules; inputs dense in space, tab, CR, LF, VT, FF; '
                      'all four skip_whitespace x skip_newline settings; every term value seen by a functor and every message position is compared with line/column computed from the '
                      'byte offset; distinct_nontrivial = distinct (grammar,input,options) with at least one term on a line > 1')
    ck.assumptions += REF_ASSUME
    return ck.finish(floor_events=1000)

@register('C11')
def c11(tier):
    ck = Check('C11', tier)
    q = tier == 'quick'
    cfg = {'modes': [1], 'exh_cap': 40, 'exh_len': 4, 'n_rand': 12, 'n_mut': 12, 'long': (20,), 'n_ws': 2, 'n_raw': 2}
    merge(ck, run_pipeline('C11', tier, gen_grammars('C11', tier, 640 if q else 6000, 'allclasses'), cfg))
    ck.cov['rule'] = ('grammars of all classes (conflict-free, S/R with random precedence, R/R, cyclic); write_diag_str text is parsed back and compared (a) with the reference LR(1) '
                      'states/items/actions/conflicts, (b) cell by cell with the raw table read through the hook, (c) with the actions of verbose traces of real parses; '
                      'a case is one grammar; distinct_nontrivial = distinct grammars with a conflict or >= 6 states')
    ck.assumptions += REF_ASSUME[:1]
    return ck.finish(floor_events=100)

@register('C14')
def c14(tier):
    ck = Check('C14', tier)
    q = tier == 'quick'
    cfg = {'modes': [0], 'exh_cap': 150 if q else 400, 'exh_len': 5, 'n_rand': 40, 'n_mut': 80, 'long': (30, 200) if q else (100, 2000)}
    gs = gen_grammars('C14', tier, 160 if q else 2000, 'values') + gen_grammars('C14r', tier, 96 if q else 1000, 'recovery')
    merge(ck, run_pipeline('C14', tier, gs, cfg, flavour='asan' if not q else 'clang'))
    # the other context_parse overloads, and g++ as the compiler (implicit move on return differs between compilers in C++17)
    cg = [g for g in gs if any(r.ftor == 'x' for r in g.rules)][: (16 if q else 120)] + gs[: (8 if q else 60)]
    merge(ck, run_pipeline('C14', tier, cg, dict(cfg, modes=[0, 25]), flavour='gxx'))
    merge(ck, common.pmap(pipeline.worker, deep_specs('C14', tier)))
    # values of a type with a potentially throwing move constructor while the run-time value stack grows beyond its reserve (recorded finding D17)
    from .grammar import simple
    g = simple('L->I L | I\nI->a'); g.vtypes = ['X', 'X']; g.note = 'deep:throwing-move'
    merge(ck, common.pmap(pipeline.worker, [{'prop': 'C14', 'grammars': [g.to_json()], 'seed': 1, 'flavour': 'clang1', 'cfg': {'modes': [0], 'timeout': 600},
                                              'explicit_inputs': [[(b'a' * k).hex() for k in (5, 1000, 1030, 2100)]]}]))
    # the fixed-size (cvector) stacks: every value type trivially destructible and the text in a cstring_buffer
    rnd = random.Random(common.seed() * 1409 + 14)
    cv = []
    pool = [g for g in gg.core_grammars() if ref_lr1.build(g).lr1] + [g for g in gg.err_core() if gg.classify(ref_lr1.build(g)) in ('lr1', 'sr')]
    rnd.shuffle(pool)
    for g in pool[: (12 if q else 60)]:
        g = gg.clone(g); g.vtypes = ['T'] * len(g.nts); g.tvtype = 'T'; g.ttstate = rnd.random() < 0.5
        for j, t in enumerate(g.terms):
            if rnd.random() < 0.5: t.typed = True
        g.rules = [gg.Rule(r.lhs, r.rhs, r.prec, 'f') for r in g.rules]
        cv.append(g)
    cfg2 = {'modes': [11], 'exh_cap': 120, 'exh_len': 4, 'n_rand': 30, 'n_mut': 40, 'long': (8, 16), 'n_ws': 6, 'n_raw': 4, 'max_len': 18}
    merge(ck, run_pipeline('C14', tier, cv, cfg2, per_tu=3))
    ck.cov['rule'] = ('grammars with tracked value types (copyable and move-only), typed terms, default functors and error rules; every value gets a unique id in a registry; '
                      'after each parse (success, failure, recovery) the registry must balance: no object or payload alive, no library-made copy, no id consumed twice, '
                      'no moved-from argument; distinct_nontrivial = distinct (grammar,input) runs that created >= 2 values')
    ck.assumptions += REF_ASSUME[1:]
    return ck.finish(floor_events=1000)

@register('C16')
def c16(tier):
    ck = Check('C16', tier)
    q = tier == 'quick'
    cfg = {'modes': [0, 1, 2, 5, 6, 8, 9, 12, 13], 'exh_cap': 100 if q else 300, 'exh_len': 4, 'n_rand': 30, 'n_mut': 40, 'long': (30, 100) if q else (100, 500), 'n_ws': 30, 'ws': 0.5}
    # term sets where several terms match the same lexeme (keyword / identifier): which term is delivered must not depend on verbosity
    # (the term sets 7, 8 and 17 of the fixed list tokenise wrongly today - recorded C04 findings - and are left to C04)
    overlap = [lxc.token_grammar(ts, 'tokens') for k_, ts in enumerate(lxc.fixed_termsets()) if k_ not in (7, 8, 17)][: (12 if q else 22)]
    overlap = [g for g in overlap if gg.classify(ref_lr1.build(g)) == 'lr1']
    merge(ck, run_pipeline('C16', tier, gen_grammars('C16', tier, 160 if q else 2000, 'verbose') + overlap, cfg))
    # lexemes of 255..5000 bytes: what the trace shows of a lexeme must not change what the term functor gets
    from .grammar import simple
    lg = simple('S->w , | S w ,')
    lg.terms = [gg.Term('r', '[a-z]+', name='word', typed=True) if t.text == 'w' else t for t in lg.terms]; lg.note = 'c16:long-lexeme'
    rnd16 = random.Random(common.seed() + 16)
    lin = []
    for n in (255, 256, 257, 300, 1024, 5000):
        w = bytes(rnd16.choice(b'abcxyz') for _ in range(n))
        lin += [w + b',', b'ab,' + w + b',cd,', w + b' ,,']
    merge(ck, common.pmap(pipeline.worker, [{'prop': 'C16', 'grammars': [lg.to_json()], 'seed': 1, 'flavour': 'clang1', 'cfg': {'modes': [0, 1, 2, 5, 6], 'timeout': 600}, 'explicit_inputs': [[d.hex() for d in lin]]}]))
    ck.cov['rule'] = ('each (grammar,input) runs under verbose on/off x {no stream, std::ostringstream, user stream type}; results and functor logs must be identical; the verbose text is '
                      'parsed into recognised/shift/reduce/goto/recovery events and compared with the action sequence of the reference driver (states renamed through the table '
                      'isomorphism) and with the functor log; distinct_nontrivial = distinct (grammar,input) with >= 6 trace events')
    ck.assumptions += REF_ASSUME
    return ck.finish(floor_events=1000)

from . import regex_check as rxc

def chunks(xs, n):
    return [xs[i:i + n] for i in range(0, len(xs), n)]

@register('C03')
def c03(tier):
    ck = Check('C03', tier)
    q = tier == 'quick'
    rnd = random.Random(common.seed() * 31337 + 3)
    corpus = rxc.corpus()
    seeded = rxc.gen_patterns(rnd, 40000 if q else 1500000, max_positions=60 if q else 90)
    jobs = [('C03', c, True, 'clang1') for c in chunks(corpus, 700)] + [('C03', c, False, 'clang1') for c in chunks(seeded, 4000)]
    merge(ck, common.pmap(rxc.judge_batch, jobs))
    # blanks are ordinary pattern characters (the pattern front end must not skip them, whatever entry point builds the automaton)
    blanks = [(rxc.rr.parse(t), t) for t in (b'k v', b'x *y', b'end if', b'a b+c', b'( a| b)c ', b' [a-c] {2}')]
    bigreps = [(rxc.rr.parse(t), t) for t in (b'a{128}', b'a{129}', b'[0-9a-f]{130}', b'(ab){70}', b'x[0-9]{140}y', b'(a|bc){90}', b'a{300}b')]      # copies of the repeated fragment 256 and more states apart
    merge(ck, common.pmap(rxc.judge_batch, [('C03', bigreps, True, 'clang1')]))
    # a regex term keeps its language when it is listed after terms that share prefixes with its members (keyword before identifier, "<=" before "<|>|="):
    # fixed term sets that work today, judged by the lexer reference
    from .grammar import Term
    sets = [[Term('s', 'if'), Term('r', '[a-z]+', name='word')], [Term('s', '<='), Term('r', '<|>|=', name='rel')], [Term('s', 'else'), Term('s', 'elif'), Term('r', '[a-z_][a-z_0-9]*', name='ident')],
            [Term('c', '='), Term('s', '=='), Term('r', '=>|=', name='arrow')], [Term('s', 'ab'), Term('r', 'a', name='a')]]
    merge(ck, [lxc.worker({'seed': 3, 'termsets': [[t.to_json() for t in ts] for ts in sets], 'modes': [0, 3], 'n_inputs': 150, 'corpus': True})])
    ct = blanks + rxc.gen_patterns(rnd, 64 if q else 1024, max_positions=20) + [x for x in rxc.rr.hand_corpus() if rxc.rr.positions_count(x[0]) <= 40]
    merge(ck, common.pmap(rxc.judge_ct, [('C03', c, 'clang', common.seed() + i) for i, c in enumerate(chunks(ct, 16))]))
    ck.cov['rule'] = ('patterns generated from ASTs over every documented construct (plus a fixed corpus: documentation/tests/examples, all ASTs with <= 2 primaries over {a,b}, 600 fixed-seed patterns); '
                      'the real pattern lexer+grammar+dfa_builder run on each pattern (at run time in harness memory, and during constant evaluation for a sample); the automaton read from memory is '
                      'compared for language equivalence over all 256 byte values with the reference DFA of the AST, and every difference is replayed through the real matcher; '
                      'patterns whose position automaton is nondeterministic, or deterministic with nested loops, are keyed to the recorded findings; distinct_nontrivial = distinct patterns whose reference DFA has >= 3 states')
    ck.assumptions += ['reference regex model lib/vf/ref_regex.py (Glushkov + subset construction), cross-checked against Python re by tools/setup.py',
                       'the run-time construction in harness memory uses the same code as regex::expr/regex_term (checked on the compile-time sample)']
    return ck.finish(floor_events=5000)

@register('C17')
def c17(tier):
    ck = Check('C17', tier)
    q = tier == 'quick'
    rnd = random.Random(common.seed() * 31337 + 17)
    bad = rxc.malformed(rnd, 12000 if q else 400000)
    merge(ck, common.pmap(rxc.judge_malformed, [(c, 'clang1') for c in chunks(bad, 3000)]))
    alpha = b'ab()[]{}*+?|\\x-^.09\x00\xff \x7f"'
    rb = [bytes(rnd.choice(alpha) for _ in range(rnd.randint(0, 14))) for _ in range(20000 if q else 600000)]
    merge(ck, common.pmap(rxc.judge_random_bytes, [(c, 'clang1') for c in chunks(rb, 5000)]))
    dr = rxc.dangling_ranges(rnd, 600 if q else 6000)
    merge(ck, common.pmap(rxc.judge_dangling, [(c, 'clang1') for c in chunks(dr, 150)]))
    merge(ck, common.pmap(ctor_reject_worker, ctor_reject_cases(rnd, 34 if q else 160)))
    ck.cov['rule'] = ('(a) strings broken in exactly the ways the property names (unbalanced group, unterminated set, dangling/empty repetition, empty alternative, leading quantifier, raw non-printable byte) '
                      'are fed to the real pattern parser, dfa_builder and dfa_size_analyzer through a bounds-monitoring buffer: all must be refused and nothing outside the pattern may be read; '
                      '(b) arbitrary strings over the meta-characters: memory safety of the scan only (no verdict on acceptance); (b2) sets whose last item is a range without an end character (`[a-]`, followed by text with another raw `]`): '
                      'refused, or else the automaton read from memory must be the one of the reading in which the set ends at its first raw `]` (any other language is a matcher with an arbitrary meaning); (c) generated programs with regex_term<bad>, regex::expr<bad>, rules naming '
                      'undeclared terms/nonterminals, empty nonterminal names: must be rejected by the constant evaluator of g++ and clang++ and throw when constructed at run time; '
                      'distinct_nontrivial = distinct malformed strings / programs')
    ck.assumptions += ['must-reject classes are exactly those named by the property; other strings give no verdict', 'a read of the terminator position is counted (terminator_position_reads) but is in bounds for the cstring_buffer the library uses for patterns']
    return ck.finish(floor_events=1000)

CTOR_TMPL = '''#include "vf_harness.hpp"
using namespace ctpg; using namespace ctpg::buffers;
%(decl)s
int main() {
#ifdef VF_RUNTIME
  try { %(rt)s std::printf("CONSTRUCTED\\n"); } catch (const std::exception& e) { std::printf("THREW %%s\\n", e.what()); }
#endif
  return 0; }
'''

def ctor_reject_cases(rnd, n):
    """programs that must not produce a parser/matcher: each has a compile-time form (must not be a constant expression)
    and, where the API allows it, a run-time form (must throw)"""
    cases = []
    badpats = rxc.malformed(rnd, n)
    for i, (t, c) in enumerate(badpats[: n // 2]):
        kind = rnd.choice(['expr', 'term'])
        decl = 'constexpr char pat[] = %s;\n' % rxc.cxx_str(t)
        if kind == 'expr': decl += 'constexpr regex::expr<pat> r;\n'
        else: decl += 'constexpr nterm<int> S("S"); constexpr regex_term<pat> t0("t0");\nconstexpr parser p(S, terms(t0), nterms(S), rules(S(t0) >= [](auto){ return 1; }));\n'
        cases.append({'name': 'pattern:%s:%s' % (kind, c), 'decl': decl, 'rt': None, 'detail': t.hex(),
                      'good': decl.replace(rxc.cxx_str(t), '"ab*"')})
    shapes = [
        ('undeclared-term', "constexpr nterm<int> S(\"S\");\n#define VF_P parser p(S, terms('a'), nterms(S), rules(S('a', 'b') >= [](auto, auto){ return 1; }))", "constexpr nterm<int> S(\"S\");\n#define VF_P parser p(S, terms('a', 'b'), nterms(S), rules(S('a', 'b') >= [](auto, auto){ return 1; }))"),
        ('undeclared-string-term', "constexpr nterm<int> S(\"S\");\n#define VF_P parser p(S, terms(\"ab\"), nterms(S), rules(S(\"ab\", \"abc\") >= [](auto, auto){ return 1; }))", "constexpr nterm<int> S(\"S\");\n#define VF_P parser p(S, terms(\"ab\", \"abc\"), nterms(S), rules(S(\"ab\", \"abc\") >= [](auto, auto){ return 1; }))"),
        ('undeclared-nterm-rhs', "constexpr nterm<int> S(\"S\"); constexpr nterm<int> T(\"T\");\n#define VF_P parser p(S, terms('a'), nterms(S), rules(S('a') >= [](auto){ return 1; }, S(T, 'a') >= [](int, auto){ return 1; }))", "constexpr nterm<int> S(\"S\"); constexpr nterm<int> T(\"T\");\n#define VF_P parser p(S, terms('a'), nterms(S, T), rules(S('a') >= [](auto){ return 1; }, S(T, 'a') >= [](int, auto){ return 1; }, T('a') >= [](auto){ return 2; }))"),
        ('undeclared-nterm-lhs', "constexpr nterm<int> S(\"S\"); constexpr nterm<int> T(\"T\");\n#define VF_P parser p(S, terms('a'), nterms(S), rules(S('a') >= [](auto){ return 1; }, T('a') >= [](auto){ return 1; }))", "constexpr nterm<int> S(\"S\"); constexpr nterm<int> T(\"T\");\n#define VF_P parser p(S, terms('a'), nterms(S, T), rules(S('a') >= [](auto){ return 1; }, T('a') >= [](auto){ return 1; }))"),
        ('undeclared-root', "constexpr nterm<int> S(\"S\"); constexpr nterm<int> T(\"T\");\n#define VF_P parser p(T, terms('a'), nterms(S), rules(S('a') >= [](auto){ return 1; }))", "constexpr nterm<int> S(\"S\"); constexpr nterm<int> T(\"T\");\n#define VF_P parser p(T, terms('a'), nterms(S, T), rules(S('a') >= [](auto){ return 1; }, T(S) >= [](int x){ return x; }))"),
        ('undeclared-regex-term', "constexpr char pa[] = \"[0-9]+\"; constexpr char pb[] = \"[a-z]+\"; constexpr regex_term<pa> ta(\"ta\"); constexpr regex_term<pb> tb(\"tb\"); constexpr nterm<int> S(\"S\");\n#define VF_P parser p(S, terms(ta), nterms(S), rules(S(ta, tb) >= [](auto, auto){ return 1; }))", "constexpr char pa[] = \"[0-9]+\"; constexpr char pb[] = \"[a-z]+\"; constexpr regex_term<pa> ta(\"ta\"); constexpr regex_term<pb> tb(\"tb\"); constexpr nterm<int> S(\"S\");\n#define VF_P parser p(S, terms(ta, tb), nterms(S), rules(S(ta, tb) >= [](auto, auto){ return 1; }))"),
        ('undeclared-regex-term-same-name', "constexpr char pa[] = \"[0-9]+\"; constexpr char pb[] = \"[a-z]+\"; constexpr regex_term<pa> ta(\"value\"); constexpr regex_term<pb> tb(\"value\"); constexpr nterm<int> S(\"S\");\n#define VF_P parser p(S, terms(ta), nterms(S), rules(S(tb) >= [](auto){ return 1; }))", "constexpr char pa[] = \"[0-9]+\"; constexpr char pb[] = \"[a-z]+\"; constexpr regex_term<pa> ta(\"value\"); constexpr regex_term<pb> tb(\"value\"); constexpr nterm<int> S(\"S\");\n#define VF_P parser p(S, terms(ta, tb), nterms(S), rules(S(tb) >= [](auto){ return 1; }))"),
        ('undeclared-regex-term-name-of-char', "constexpr char pb[] = \"[a-z]+\"; constexpr regex_term<pb> tb(\"a\"); constexpr nterm<int> S(\"S\");\n#define VF_P parser p(S, terms('a'), nterms(S), rules(S('a', tb) >= [](auto, auto){ return 1; }))", "constexpr char pb[] = \"[b-z]+\"; constexpr regex_term<pb> tb(\"a\"); constexpr nterm<int> S(\"S\");\n#define VF_P parser p(S, terms('a', tb), nterms(S), rules(S('a', tb) >= [](auto, auto){ return 1; }))"),
        # the constructor forms without a name: regex_term(associativity), regex_term(precedence, associativity); string_term / char_term with precedence
        ('undeclared-unnamed-regex-term', "constexpr char pa[] = \"[0-9]+\"; constexpr char pb[] = \"[a-z]+\"; constexpr regex_term<pa> ta(1, associativity::ltor); constexpr regex_term<pb> tb(associativity::ltor); constexpr nterm<int> S(\"S\");\n#define VF_P parser p(S, terms(ta), nterms(S), rules(S(tb) >= [](auto){ return 1; }))", "constexpr char pa[] = \"[0-9]+\"; constexpr char pb[] = \"[a-z]+\"; constexpr regex_term<pa> ta(1, associativity::ltor); constexpr regex_term<pb> tb(associativity::ltor); constexpr nterm<int> S(\"S\");\n#define VF_P parser p(S, terms(ta, tb), nterms(S), rules(S(tb) >= [](auto){ return 1; }))"),
        ('undeclared-unnamed-regex-term-2', "constexpr char pa[] = \"[0-9]+\"; constexpr char pb[] = \"[a-z]+\"; constexpr regex_term<pa> ta(2, associativity::rtol); constexpr regex_term<pb> tb(3, associativity::no_assoc); constexpr nterm<int> S(\"S\");\n#define VF_P parser p(S, terms(tb), nterms(S), rules(S(ta, tb) >= [](auto, auto){ return 1; }))", "constexpr char pa[] = \"[0-9]+\"; constexpr char pb[] = \"[a-z]+\"; constexpr regex_term<pa> ta(2, associativity::rtol); constexpr regex_term<pb> tb(3, associativity::no_assoc); constexpr nterm<int> S(\"S\");\n#define VF_P parser p(S, terms(tb, ta), nterms(S), rules(S(ta, tb) >= [](auto, auto){ return 1; }))"),
        ('undeclared-term-object-with-precedence', "constexpr char_term ta('a', 1, associativity::ltor); constexpr string_term tb(\"bb\", 2, associativity::rtol); constexpr nterm<int> S(\"S\");\n#define VF_P parser p(S, terms(ta), nterms(S), rules(S(ta, tb) >= [](auto, auto){ return 1; }))", "constexpr char_term ta('a', 1, associativity::ltor); constexpr string_term tb(\"bb\", 2, associativity::rtol); constexpr nterm<int> S(\"S\");\n#define VF_P parser p(S, terms(ta, tb), nterms(S), rules(S(ta, tb) >= [](auto, auto){ return 1; }))"),
        ('undeclared-custom-term', "constexpr custom_term ta(\"ta\", [](auto sv){ return 1; }); constexpr custom_term tb(\"tb\", [](auto sv){ return 2; }); constexpr nterm<int> S(\"S\");\nstruct Lx { template<class It, class ES> constexpr recognized_term match(match_options, source_point, It s, It e, ES&) const { return s == e ? recognized_term{} : recognized_term(0, 1); } };\n#define VF_P parser p(S, terms(ta), nterms(S), rules(S(ta, tb) >= [](auto, auto){ return 1; }), use_lexer<Lx>{})", "constexpr custom_term ta(\"ta\", [](auto sv){ return 1; }); constexpr custom_term tb(\"tb\", [](auto sv){ return 2; }); constexpr nterm<int> S(\"S\");\nstruct Lx { template<class It, class ES> constexpr recognized_term match(match_options, source_point, It s, It e, ES&) const { return s == e ? recognized_term{} : recognized_term(0, 1); } };\n#define VF_P parser p(S, terms(ta, tb), nterms(S), rules(S(ta, tb) >= [](auto, auto){ return 1; }), use_lexer<Lx>{})"),
        ('undeclared-regex-term-long-common-prefix', "constexpr char pa[] = \"(January|February|March|April|May|June|July|August)[0-9]+\"; constexpr char pb[] = \"(January|February|March|April|May|June|July|August)[a-z]+\"; constexpr regex_term<pa> ta(\"ta\"); constexpr regex_term<pb> tb(\"tb\"); constexpr nterm<int> S(\"S\");\n#define VF_P parser p(S, terms(ta), nterms(S), rules(S(tb) >= [](auto){ return 1; }))", "constexpr char pa[] = \"(January|February|March|April|May|June|July|August)[0-9]+\"; constexpr char pb[] = \"(January|February|March|April|May|June|July|August)[a-z]+\"; constexpr regex_term<pa> ta(\"ta\"); constexpr regex_term<pb> tb(\"tb\"); constexpr nterm<int> S(\"S\");\n#define VF_P parser p(S, terms(ta, tb), nterms(S), rules(S(tb) >= [](auto){ return 1; }))"),
        ('undeclared-string-term-long-common-prefix', "constexpr nterm<int> S(\"S\");\n#define VF_P parser p(S, terms(\"preprocessor_directive_conditional_ifdef_x\"), nterms(S), rules(S(\"preprocessor_directive_conditional_ifdef_x\", \"preprocessor_directive_conditional_ifdef_y\") >= [](auto, auto){ return 1; }))", "constexpr nterm<int> S(\"S\");\n#define VF_P parser p(S, terms(\"preprocessor_directive_conditional_ifdef_x\", \"preprocessor_directive_conditional_ifdef_y\"), nterms(S), rules(S(\"preprocessor_directive_conditional_ifdef_x\", \"preprocessor_directive_conditional_ifdef_y\") >= [](auto, auto){ return 1; }))"),
        ('empty-nterm-name', "#define VF_P nterm<int> S(\"\")", "#define VF_P nterm<int> S(\"S\")"),
    ]
    k = 0
    while len(cases) < n:
        name, bad, good = shapes[k % len(shapes)]; k += 1
        # vary the symbols a little so that cases are distinct programs
        a = rnd.choice('acdefgh'); b = rnd.choice('bijklmn')
        bad2 = bad.replace("'a'", "'%s'" % a).replace("'b'", "'%s'" % b); good2 = good.replace("'a'", "'%s'" % a).replace("'b'", "'%s'" % b)
        cases.append({'name': 'grammar:' + name, 'decl': bad2 + '\nconstexpr VF_P;\n', 'rt': bad2 + '\n', 'detail': '%s %s' % (a, b), 'good': good2 + '\nconstexpr VF_P;\n', 'good_rt': good2 + '\n'})
        if k > 10 * n: break
    return cases

def ctor_reject_worker(case):
    out = {'counts': collections.Counter(), 'viol': [], 'samples': [], 'distinct': [], 'incon': []}
    C = out['counts']
    try:
        C['evaluations'] += 1; C['programs_' + case['name'].split(':')[0]] += 1
        out['distinct'].append(common.sha(case['decl'])[:12])
        key = 'input:' + common.sha(case['decl'])[:16]
        for fl in ('gsyntax', 'csyntax'):
            # positive control: the well-formed sibling must compile
            try:
                common.build(CTOR_TMPL % {'decl': case['good'], 'rt': ''}, fl, name='ctor_good')
            except common.BuildError as e:
                out['incon'].append('control program for %s does not compile with %s: %s' % (case['name'], fl, e.diag[:300])); continue
            try:
                common.build(CTOR_TMPL % {'decl': case['decl'], 'rt': ''}, fl, name='ctor_bad')
                out['viol'].append(([key], '%s (%s): construction during constant evaluation was accepted by %s' % (case['name'], case['detail'], fl), {'program': case['decl']}))
            except common.BuildError as e:
                C['compile_time_rejections_observed'] += 1
                if 'constant expression' not in e.diag and 'constexpr' not in e.diag:
                    out['incon'].append('%s rejected by %s for an unexpected reason: %s' % (case['name'], fl, e.diag[:300]))
        if case.get('rt'):
            src = CTOR_TMPL % {'decl': case['rt'], 'rt': 'VF_P; (void)sizeof(p);' if 'parser p' in case['rt'] else 'VF_P; (void)S;'}
            exe = common.build(src, 'clang', extra=['-DVF_RUNTIME'], name='ctor_rt')
            rc, o, e, to = common.run(exe, timeout=60)
            C['run_time_constructions_observed'] += 1
            if b'THREW' not in o:
                out['viol'].append(([key], '%s (%s): construction at run time did not throw (output %r rc=%s)' % (case['name'], case['detail'], o[:100], rc), {'program': case['rt']}))
            srcg = CTOR_TMPL % {'decl': case['good_rt'], 'rt': 'VF_P; (void)sizeof(p);' if 'parser p' in case['good_rt'] else 'VF_P; (void)S;'}
            exe = common.build(srcg, 'clang', extra=['-DVF_RUNTIME'], name='ctor_rt_good')
            rc, o, e, to = common.run(exe, timeout=60)
            if b'CONSTRUCTED' not in o: out['incon'].append('run-time control for %s did not construct: %r' % (case['name'], o[:100]))
        out['samples'].append({'case': case['name'], 'program': case['decl'][:300]})
    except common.BuildError as e:
        out['incon'].append('ctor case %s: harness build failed: %s' % (case['name'], e.diag[:400]))
    except Exception:
        import traceback
        out['incon'].append('ctor worker: ' + traceback.format_exc()[-800:])
    return out

@register('C05')
def c05(tier):
    ck = Check('C05', tier)
    q = tier == 'quick'
    cfg = {'modes': [0], 'exh_cap': 150 if q else 400, 'exh_len': 5, 'n_rand': 60, 'n_mut': 20, 'long': (30, 100, 400) if q else (100, 400, 1500), 'n_ws': 4, 'n_raw': 2}
    merge(ck, run_pipeline('C05', tier, gen_grammars('C05', tier, 256 if q else 3000, 'precedence'), cfg))
    merge(ck, common.pmap(api_probe_worker, [(fl, ('named-rule',)) for fl in ('clang', 'gxx0')]))      # named rule objects reused in two grammars
    ck.cov['rule'] = ('expression grammars E->E op E|pre E|E post|(E)|atom with random operator sets, precedence (negative/equal values), associativity and explicit [n]; dangling-else shapes; '
                      'generic grammars with S/R conflicts and random precedence; the dumped table is compared cell by cell with the reference table resolved by the documented rule, '
                      'operator chains up to hundreds of operators are parsed and the logged derivation is compared with the reference and, for pure binary grammars, with an independent '
                      'operator-precedence grouping; distinct_nontrivial = distinct accepted (grammar,input) with >= 4 reductions in a grammar with S/R conflicts')
    ck.assumptions += REF_ASSUME[:1] + ['explicit rule precedence [0] is not generated (indistinguishable from "not given")', 'grammars with R/R conflicts are excluded (documented as undefined)']
    return ck.finish(floor_events=1000)

@register('C08')
def c08(tier):
    ck = Check('C08', tier)
    q = tier == 'quick'
    cfg = {'modes': [0, 1, 7, 9, 11], 'exh_cap': 200 if q else 500, 'exh_len': 5, 'n_rand': 40, 'n_mut': 200 if q else 500, 'long': (20, 60) if q else (60, 300), 'n_ws': 40, 'ws': 0.4, 'n_raw': 4}
    merge(ck, run_pipeline('C08', tier, gen_grammars('C08', tier, 160 if q else 2000, 'recovery'), cfg))
    # a syntax error under a stack of more than 65535 entries: the states accepting the error symbol lie far below the top
    from .grammar import simple
    dg_ = simple('S->L ,\nS->error ,\nS->( error )\nL->x L | x | ( S )'); dg_.note = 'c08:deep'
    n_ = 66000 if q else 140000
    deep_in = [b'x' * n_ + b'(,', b'x' * n_ + b',', b'x' * n_ + b') ,', b'x' * 65534 + b'(,', b'x' * 65535 + b'( ,', b'(' + b'x' * n_ + b'( )', b'x' * 10 + b'( ,']
    merge(ck, common.pmap(pipeline.worker, [{'prop': 'C08', 'grammars': [dg_.to_json()], 'seed': 1, 'flavour': 'clang1', 'cfg': {'modes': [0, 1], 'timeout': 900}, 'explicit_inputs': [[d.hex() for d in deep_in]]}]))
    ck.cov['rule'] = ('grammars with the error symbol in statement-list, bracketed, first/last and nested positions (fixed corpus + error rules added to random LR(1) grammars); inputs: all short strings and '
                      'derivable inputs with tokens inserted/deleted/replaced/duplicated; observed result, surviving values (functor log), error reports and verbose recovery steps are compared with a '
                      'reference driver that implements exactly the documented algorithm; distinct_nontrivial = distinct (grammar,input) with at least one syntax error')
    ck.assumptions += REF_ASSUME
    return ck.finish(floor_events=1000)

@register('C13')
def c13(tier):
    ck = Check('C13', tier)
    q = tier == 'quick'
    cfg = {'modes': [0, 20, 21, 22, 23, 24, 25, 26, 27, 28, 29, 30, 31, 32, 33], 'exh_cap': 80 if q else 200, 'exh_len': 4, 'n_rand': 40, 'n_mut': 30, 'long': (30, 300) if q else (100, 1000), 'n_ws': 4, 'n_raw': 2}
    merge(ck, run_pipeline('C13', tier, gen_grammars('C13', tier, 128 if q else 1500, 'context'), cfg))
    merge(ck, common.pmap(api_probe_worker, [(fl, ('reference-into',)) for fl in ('clang', 'gxx0')]))      # the library never moves out of the caller's context
    ck.cov['rule'] = ('grammars mixing >= and >>= functors (and some with none); context categories lvalue, const lvalue, rvalue temporary, move-only lvalue, named objects passed with std::move, through the overloads with and without parse_options / stream; each contextual functor logs whether it '
                      'received the caller\'s object (address), its constness and the number of calls the object has seen, and bumps it; after the call the caller\'s counter must equal the number of '
                      'contextual reductions in the reference derivation; context copy/move counters must stay 0; parse and context_parse are compared on grammars that ignore the context; '
                      'distinct_nontrivial = distinct (grammar,input,category) with >= 2 contextual reductions')
    ck.assumptions += REF_ASSUME
    return ck.finish(floor_events=1000)

from . import lexer_check as lxc

@register('C04')
def c04(tier):
    ck = Check('C04', tier)
    q = tier == 'quick'
    rnd = random.Random(common.seed() * 4441 + 4)
    modes = [0, 7, 8, 9, 3, 4, 14]      # 14: a string_buffer that was moved and copied after construction
    specs = []
    fixed = lxc.fixed_termsets()
    for i, c in enumerate(chunks(fixed, 6)):
        specs.append({'seed': 20261003 + i, 'termsets': [[t.to_json() for t in ts] for ts in c], 'modes': modes, 'n_inputs': 120 if q else 400, 'corpus': True})
    # generated term sets of the finding classes that tokenise correctly today (corpus/lexer_termsets.jsonl): obligations
    from .grammar import Term as _T
    stored = [[_T.from_json(t) for t in json.loads(l)] for l in open(os.path.join(common.VERIF, 'corpus', 'lexer_termsets.jsonl')) if l.strip()]
    for i, c in enumerate(chunks(stored if not q else stored[:120], 6)):
        specs.append({'seed': 20261004, 'termsets': [[t.to_json() for t in ts] for ts in c], 'modes': modes, 'n_inputs': 60 if q else 150, 'corpus': True})
    n = 96 if q else 2000
    sets = [lxc.gen_termset(rnd) for _ in range(n)]
    for i, c in enumerate(chunks(sets, 6)):
        specs.append({'seed': common.seed() * 7 + i, 'termsets': [[t.to_json() for t in ts] for ts in c], 'modes': modes, 'n_inputs': 80 if q else 300})
    merge(ck, common.pmap(lxc.worker, specs))
    ck.cov['rule'] = ('term sets (chars, strings, regexes, typed terms; keywords vs identifiers, ints vs floats, operators sharing prefixes, terms equal as languages; a fixed corpus of realistic sets plus seeded '
                      'random ones) under the grammar L -> eps | L t_i; (1) the merged lexer automaton is read through the hook and compared as a tagged language (which term wins after every string) with the '
                      'reference union automaton with first-listed priority; (2) inputs made of sampled lexemes, whitespace and foreign bytes are parsed under all four whitespace option sets and three '
                      'buffer kinds, and the token events (term, offset, length, line, column), result and message are compared with reference maximal munch; sets whose union needs determinisation '
                      'are keyed to the recorded finding unless they belong to the fixed corpus; distinct_nontrivial = distinct (term set,input,options) with >= 2 tokens')
    ck.assumptions += ['reference regex/tagged-automaton model lib/vf/ref_regex.py', 'terms never match the empty string (generator filter)']
    return ck.finish(floor_events=1000)

from . import helpers_check as hpc

@register('C19')
def c19(tier):
    ck = Check('C19', tier)
    out, n = hpc.run('asan0' if tier == 'quick' else 'asan')
    merge(ck, [out])
    out2, n2 = hpc.run('gxx0')      # the same enumeration compiled by g++ (implicit move on return differs between compilers in C++17)
    out2['distinct'] = []; merge(ck, [out2]); n += n2
    for o_ in common.pmap(api_probe_worker, [(fl, ('named-val',)) for fl in ('clang', 'gxx0')]) + common.pmap(functor_identity_worker, ['clang']):
        n += o_['counts'].get('evaluations', 0); merge(ck, [o_])      # val(v) passed as a named object; helper objects are copied into the parser
    ck.cov['exhaustive'] = (ck.cov.get('evaluations', 0) == n)
    ck.cov['cases_in_space'] = n
    ck.cov['rule'] = ('complete enumeration, executed under ASan+UBSan: _e1.._e9 and construct<T,I> for every arity 1..9 and position with lvalue, rvalue and move-only arguments; push_back<C,A> and '
                      'emplace_back<C,A> for every arity <= 9 and every position pair C != A (rvalue; move-only for emplace_back); val and create<T> for every arity; every argument is a tracked object, '
                      'so identity of the returned reference, the id the result was built from, copies/moves of every argument and of the container are observed; every case is distinct and non-trivial')
    ck.assumptions += ['reads of an argument that leave no trace (no copy, move or mutation) are not observable']
    return ck.finish(floor_events=n)

def functor_identity_worker(flavour):
    """harness/term_functor_identity.cpp: the functor objects stored in the parser are the ones that get called (they report their own address, which must lie
    inside the parser object; views into their own state must still be valid when a rule functor reads them)"""
    out = {'counts': collections.Counter(), 'viol': [], 'samples': [], 'distinct': [], 'incon': []}
    try:
        src = open(os.path.join(common.HARNESS, 'term_functor_identity.cpp')).read()
        exe = common.build(src, flavour, name='tfi')
        rc, so, se, to = common.run(exe, [], timeout=120, env={'ASAN_OPTIONS': 'detect_stack_use_after_return=1:detect_leaks=0:abort_on_error=0', 'UBSAN_OPTIONS': 'print_stacktrace=1:halt_on_error=1'})
        text = so.decode('latin-1'); err = se.decode('latin-1', 'replace')
        if 'END' not in text:
            sig = re.findall(r'(ERROR: AddressSanitizer[^\n]*|runtime error:[^\n]*|SUMMARY: [A-Za-z]*Sanitizer[^\n]*)', err)
            out['viol'].append((['site:functor-object@crash'], 'functor identity probe (%s build) aborted rc=%s: %s' % (flavour, rc, ' | '.join(sig[:3]) or err[-300:]), {}))
            return out
        for ln in text.split('\n'):
            if not ln.startswith('R '): continue
            out['counts']['evaluations'] += 1; out['counts']['functor_objects_probed'] += 1
            out['distinct'].append(common.sha(ln.split()[1], flavour)[:12])
            if 'inside-parser=1' not in ln or 'valid=1' not in ln or 'result=1' not in ln:
                out['viol'].append((['site:functor-object@' + ln.split()[1]], 'functor identity probe (%s build): %s' % (flavour, ln[2:]), {}))
    except common.BuildError as e:
        out['viol'].append((['site:functor-object@compile'], 'functor identity probe does not compile (%s): %s' % (flavour, e.diag[:400]), {}))
    except Exception:
        out['incon'].append('functor identity worker: ' + traceback.format_exc()[-800:])
    return out

def api_probe_worker(arg):
    """harness/api_probes.cpp: fixed probes of documented usage patterns the generators do not produce; arg = (flavour, prefixes of the probes that belong to the property)"""
    flavour, wanted = arg
    out = {'counts': collections.Counter(), 'viol': [], 'samples': [], 'distinct': [], 'incon': []}
    try:
        src = open(os.path.join(common.HARNESS, 'api_probes.cpp')).read()
        exe = common.build(src, flavour, name='apip')
        rc, so, se, to = common.run(exe, [], timeout=120)
        text = so.decode('latin-1')
        if 'END' not in text:
            out['viol'].append((['site:api-probes@crash'], 'API probe program (%s build) aborted rc=%s: %s' % (flavour, rc, se.decode('latin-1', 'replace')[-300:]), {})); return out
        for ln in text.split('\n'):
            p_ = ln.split(' ', 3)
            if len(p_) < 3 or p_[0] != 'P' or not any(p_[1].startswith(w) for w in wanted): continue
            out['counts']['evaluations'] += 1; out['counts']['api_probes_observed'] += 1
            out['distinct'].append(common.sha(p_[1], flavour)[:12])
            if p_[2] != '1': out['viol'].append((['site:api-probe@' + p_[1]], 'API probe (%s build) failed: %s %s' % (flavour, p_[1].replace('-', ' '), p_[3] if len(p_) > 3 else ''), {}))
    except common.BuildError as e:
        out['viol'].append((['site:api-probes@compile'], 'API probe program does not compile (%s): %s' % (flavour, e.diag[:400]), {}))
    except Exception:
        out['incon'].append('api probe worker: ' + traceback.format_exc()[-800:])
    return out

def long_lexeme_specs(prop, tier):
    """a custom lexer may return one lexeme of any length: single terms of 65535..200000 bytes, followed by more input"""
    from .grammar import simple
    rnd = random.Random(common.seed() + 18)
    specs = []
    for n in [65535, 65536, 65537, rnd.randint(65538, 140000), 200000 if tier == 'quick' else 1000000]:
        g = simple('S->x y | S x y'); g.note = 'long-lexeme'
        g = gg.to_custom_lexer(g, random.Random(1))
        term, ln = g.lexspec
        term = list(term); ln = [1] * 256
        ln[ord('x')] = n
        g.lexspec = (term, ln)
        blob = b'x' + bytes(rnd.choice(b'xyzq ') for _ in range(n - 1))
        inputs = [blob + b'y', blob + b' y' + blob + b'y', blob, blob[: n - 1] + b'y', blob + b'yy']
        specs.append({'prop': prop, 'grammars': [g.to_json()], 'seed': 1, 'flavour': 'clang1', 'cfg': {'modes': [0, 3, 4], 'timeout': 600}, 'explicit_inputs': [[d.hex() for d in inputs]]})
    return specs

@register('C18')
def c18(tier):
    ck = Check('C18', tier)
    q = tier == 'quick'
    cfg = {'modes': [0, 1, 3, 4, 7, 8, 9], 'exh_cap': 150 if q else 400, 'exh_len': 4, 'n_rand': 40, 'n_mut': 60, 'long': (30, 120) if q else (100, 600), 'n_ws': 60, 'ws': 0.5, 'n_raw': 24}
    merge(ck, run_pipeline('C18', tier, gen_grammars('C18', tier, 128 if q else 1500, 'customlexer'), cfg))
    merge(ck, common.pmap(functor_identity_worker, ['clang', 'gxx0']))      # the custom term's own functor object is the one that converts the slice
    merge(ck, common.pmap(pipeline.worker, long_lexeme_specs('C18', tier)))
    ck.cov['rule'] = ('grammars over custom terms with use_lexer<scripted lexer>: the lexer answers (term index, length) as a function of the first byte (lengths 1..4, so not a longest match; '
                      'unmapped bytes fail; whitespace bytes may be terms) and logs every call (offset, remaining length, source point it was given, answer); the call log interleaved with the '
                      'term-functor and rule-functor log, the result and the messages are compared exactly with the reference driver over the same script, under all whitespace options, '
                      'verbose on/off and three buffer kinds; distinct_nontrivial = distinct (grammar,input,options) with >= 2 lexer calls')
    ck.assumptions += REF_ASSUME + ['lexer answers are in range and never of length 0 (C06 precondition)']
    return ck.finish(floor_events=1000)

from . import safety_check as sfc

@register('C06')
def c06(tier):
    ck = Check('C06', tier)
    q = tier == 'quick'
    rnd = random.Random(common.seed() * 6007 + 6)
    gs, deep = sfc.grammars_for(tier, rnd)
    specs = []
    for fl in (['asan'] if q else ['asan', 'gasan']):
        for i, c in enumerate(chunks(gs, 4)):
            specs.append({'seed': common.seed() * 13 + i, 'grammars': [g.to_json() for g in c], 'flavour': fl, 'modes': [0, 3, 4, 10, 14], 'tier': tier, 'timeout': 200 if q else 600})
    n = 70000 if q else 300000
    deep_inputs = [[b'(' * n + b'a' + b')' * n, b'(' * n + b'a' + b')' * (n - 1), b'(' * n], [b'a' * (2 * n)], [b'a' * (4 * n)], [b'i+' * n + b'(i+i)', b'i+' * n]]
    # a reduction at every stack depth while the stacks grow: every growth step (reallocation) of the run-time stacks happens in the middle of a reduction
    from .grammar import simple
    for spec, mk in (('L->I L | I\nI->a', lambda k: b'a' * k), ('L->I s L | I\nI->a | b I', lambda k: b'as' * k + b'ba')):
        g = simple(spec); g.note = 'deep:growth-steps'
        deep = deep + [g]; deep_inputs.append([mk(k) for base in (1024, 2048, 4096) for k in range(base - 3, base + 3)])
    for g, ins in zip(deep, deep_inputs):
        specs.append({'seed': 1, 'grammars': [g.to_json()], 'flavour': 'asan', 'modes': [0, 3, 4], 'tier': tier, 'timeout': 300 if q else 1200, 'explicit_inputs': [[d.hex() for d in ins]]})
    merge(ck, common.pmap(sfc.worker, specs))
    # the fixed-size stacks (cstring_buffer with trivially destructible values) under ASan+UBSan, driven up to and beyond their capacity: an
    # overflow must be the documented exception, never a write outside the stack (only crashes / sanitizer reports are judged here)
    ng = capc.nullable_rich(rnd, 12 if q else 60)
    merge(ck, common.pmap(capc.stack_worker, [{'grammar': g.to_json(), 'seed': common.seed() * 31 + i, 'n_inputs': 10 if q else 30, 'n_boundary': 16, 'safety_only': True} for i, g in enumerate(ng)]))
    merge(ck, common.pmap(functor_identity_worker, ['asan']))      # views into a functor's own state read later by rule functors (stack-use-after-return detection on)
    merge(ck, common.pmap(sfc.regex_worker, [(common.seed() * 17 + i, 400 if q else 4000, 'asan') for i in range(8 if q else 32)]))
    ctp = rxc.gen_patterns(rnd, 48 if q else 600, max_positions=20) + rxc.rr.hand_corpus()[:24]
    merge(ck, common.pmap(rxc.judge_ct, [('C06', c, 'asan0', common.seed() + i) for i, c in enumerate(chunks(ctp, 12))]))
    merge(ck, [fuzz_targets(tier)])
    if not q:
        merge(ck, common.pmap(sfc.valgrind_worker, [{'seed': common.seed() * 29 + i, 'grammars': [g.to_json() for g in c], 'n_inputs': 60} for i, c in enumerate(chunks(gs[:48], 3))]))
    ck.cov['rule'] = ('conflict-free grammars (core corpus, string/regex/typed terms, fixed lexer term sets, error rules, scripted custom lexers) built with clang ASan+UBSan (-fno-sanitize-recover, '
                      '_GLIBCXX_ASSERTIONS; thorough adds g++ ASan+bounds, libFuzzer targets) and run on hostile inputs: every single byte value, whitespace-only, empty, every prefix of valid sentences, '
                      'byte flips to NUL/0x80/0xff, trailing/leading whitespace, random bytes, inputs of 10^5..10^6 tokens and nesting depth 10^5, through string_buffer, an exact-size heap '
                      'string_view_buffer and the bounds-monitoring user buffer; plus the standalone matcher (dfa_match) on matching and non-matching strings; any sanitizer report, monitor flag, cvector '
                      'hook event, exception, abort or watchdog expiry is a violation; distinct_nontrivial = distinct (grammar,input) pairs with input longer than one byte')
    ck.assumptions += ['termination is decided as bounded progress under a generous watchdog on the executions produced', 'ASan red zones cannot see intra-object overflow; the cvector hook and the bounds-monitoring buffer cover the library stacks and the caller buffer']
    return ck.finish(floor_events=1000)

FUZZ = [('fuzz_json', [b'{"a":[1,2.5e+3,true,null],"b":{}}', b'[]', b'"x\\n"', b'[1,', b'{"k" 1}'], 200),
        ('fuzz_regex', [b'a(b|c)*d\xffabcd', b'[a-z]+\xffhello!', b'(ab){3}\xffababab', b'[^x\xff', b'a{2\xffaa', b'\\x4\xff\x04'], 64),
        ('fuzz_custom', [b'1+2;(3);', b'1 + ;2;', b'((1)', b';;;', b'12(\x80)'], 128)]

def fuzz_one(args):
    import tempfile, shutil, glob, re as _re
    name, seeds, maxlen, runs, seed = args
    out = {'counts': collections.Counter(), 'viol': [], 'samples': [], 'distinct': [], 'incon': []}
    try:
        exe = common.build(open(os.path.join(common.HARNESS, name + '.cpp')).read(), 'fuzz', name=name)
    except common.BuildError as e:
        out['viol'].append((['site:%s@compile' % name], 'fuzz target %s (documented API) does not compile: %s' % (name, e.diag[:500]), {})); return out
    d = tempfile.mkdtemp(prefix='fz', dir=os.path.join(common.WORK, 'jobs') if os.path.isdir(os.path.join(common.WORK, 'jobs')) else common.WORK)
    try:
        os.makedirs(d + '/corpus'); os.makedirs(d + '/art')
        for i, sd in enumerate(seeds): open('%s/corpus/s%d' % (d, i), 'wb').write(sd)
        rc, so, se, to = common.run(exe, ['-runs=%d' % runs, '-seed=%d' % seed, '-max_len=%d' % maxlen, '-artifact_prefix=%s/art/' % d, '-print_final_stats=1', '-timeout=20', d + '/corpus'],
                                    timeout=3600, env={'ASAN_OPTIONS': 'abort_on_error=0:detect_leaks=0:allocator_may_return_null=1', 'UBSAN_OPTIONS': 'print_stacktrace=1:halt_on_error=1'})
        err = se.decode('latin-1', 'replace')
        m = _re.search(r'stat::number_of_executed_units:\s*(\d+)', err)
        n = int(m.group(1)) if m else 0
        out['counts']['evaluations'] += n; out['counts']['fuzz_executions_' + name] += n
        cov = _re.findall(r'cov: (\d+)', err)
        if cov: out['counts']['fuzz_edges_covered_' + name] = int(cov[-1])
        out['distinct'] += ['%s-%d' % (name, i) for i in range(min(n, 2))]
        arts = glob.glob(d + '/art/*')
        if rc != 0 or arts:
            data = open(arts[0], 'rb').read() if arts else b''
            sig = _re.findall(r'(MONITOR[^\n]*|ERROR: AddressSanitizer[^\n]*|runtime error:[^\n]*|SUMMARY: [A-Za-z]*Sanitizer[^\n]*|ERROR: libFuzzer[^\n]*)', err)
            out['viol'].append((['input:' + common.sha(name, data)[:16]], 'fuzz target %s: input %r: %s' % (name, data[:120], ' | '.join(sig[:3]) or err[-300:]), {'target': name, 'input': data.hex(), 'stderr': err[-2500:]}))
        if n == 0 and rc == 0: out['incon'].append('fuzzer %s reported no executions' % name)
        out['samples'].append({'fuzz_target': name, 'executions': n, 'seed_inputs': [x.decode('latin-1') for x in seeds[:2]]})
    finally:
        shutil.rmtree(d, ignore_errors=True)
    return out

def fuzz_targets(tier):
    runs = 60000 if tier == 'quick' else 2000000
    os.makedirs(os.path.join(common.WORK, 'jobs'), exist_ok=True)
    outs = common.pmap(fuzz_one, [(n, s, ml, runs, common.seed()) for n, s, ml in FUZZ])
    m = {'counts': collections.Counter(), 'viol': [], 'samples': [], 'distinct': [], 'incon': []}
    for o in outs:
        for k, v in o['counts'].items(): m['counts'][k] += v
        for k in ('viol', 'samples', 'distinct', 'incon'): m[k] += o[k]
    return m

from . import consteval_check as cec

@register('C07')
def c07(tier):
    ck = Check('C07', tier)
    q = tier == 'quick'
    rnd = random.Random(common.seed() * 7001 + 7)
    gs = []
    seen = set()
    def add(g):
        if g.key() not in seen: seen.add(g.key()); gs.append(g)
    for g in gg.core_grammars():
        if ref_lr1.build(g).lr1: add(g)
    for g in gg.err_core()[:4]: add(g)
    from .grammar import simple
    for spec, pats in (('S->L\nL->eps | L I\nI->s ;', {'s': '"[^"]*"'}), ('S->L\nL->eps | L w ;', {'w': '[^;]+'}), ('S->k v | S , k v', {'k': '[a-z]+', 'v': '=.'})):
        g = simple(spec)
        for j, t in enumerate(g.terms):
            if t.text in pats: g.terms[j] = gg.Term('r', pats[t.text], t.prec, t.assoc)
        g.note = 'c07:nul-accepting-terms'; add(g)
    st = gg.grammar_stream(rnd, want_lr1=0.9)
    want = 47 if q else 400
    while len(gs) < want:
        g, tb = next(st)
        x = rnd.random()
        if x < 0.2: g = gg.add_error_rules(g, rnd)
        elif x < 0.5: g = gg.decorate(g, rnd, vtypes=False, dflt=0, typed=0.3, strings=0.4, regexes=(0.4 if rnd.random() < 0.5 else 0))
        elif x < 0.6: g = gg.with_precedence(g, rnd)
        if gg.classify(ref_lr1.build(g)) in ('rr', 'acc'): continue
        if len(ref_lr1.build(g).states) > 40: continue
        add(g)
    specs = [{'seed': common.seed() * 19 + i, 'grammars': [g.to_json() for g in c], 'n_inputs': 14 if q else 40} for i, c in enumerate(chunks(gs, 3))]
    # texts longer than the 1024 entries the run-time stacks reserve: constant evaluation and the fixed stacks must not depend on a size class
    from .grammar import simple
    lg = simple('S->S a | S b | a'); lg.note = 'c07:long-text'
    longs = [b'a' * 1021, b'a' * 1023, b'ab' * 760, b'a' * 1100 + b'?', b'a' * 1200 + b' ' + b'b' * 900]
    specs.append({'seed': 1, 'grammars': [lg.to_json()], 'n_inputs': 0, 'explicit_inputs': [[d.hex() for d in longs]], 'long_literals': True})
    merge(ck, common.pmap(cec.worker, specs))
    merge(ck, common.pmap(functor_identity_worker, ['clang', 'gxx0']))      # results may refer to the state of the functor objects stored in the parser: those objects are the ones called, in every construction mode
    ck.cov['rule'] = ('generated programs with literal-typed grammars (char/string terms, precedence, error rules, contextual functors): each input (accepted, syntactically wrong, lexically wrong; '
                      'four whitespace option sets) is parsed in a constexpr initializer compiled by g++ and by clang++ (the constant evaluators execute the real parse path and reject undefined '
                      'behaviour), and at run time through cstring_buffer, string_buffer, string_view_buffer and a user buffer, with the parser object built at compile time and at run time; all 9 results '
                      'per compiler must be equal (value or empty) and the two construction modes must print identical diagnostics; distinct_nontrivial = distinct (grammar,input,options)')
    ck.assumptions += ['compilers limited to the installed g++ 12 and clang++ 14', 'results are compared as a checksum of the derivation (rule numbers, term bytes and positions)']
    return ck.finish(floor_events=300)

from . import thread_check as thc

@register('C15')
def c15(tier):
    ck = Check('C15', tier)
    q = tier == 'quick'
    specs = []
    for i in range(3 if q else 12):
        for fl in ('tsan', 'gxx'):
            specs.append({'seed': common.seed() * 23 + i, 'n_grammars': 6, 'n_inputs': 10 if q else 30, 'threads': [4, 16] if q else [2, 8, 16, 32], 'iters': 400 if q else 3000, 'flavour': fl, 'timeout': 240 if q else 1200})
    merge(ck, common.pmap(thc.worker, specs, jobs=4))
    merge(ck, common.pmap(functor_identity_worker, ['clang']))      # the caller's functor objects are copied into the parser, never referenced or mutated
    ck.cov['rule'] = ('several const parser objects (constexpr and run-time constructed; generated lexers with string/regex/typed terms, a custom lexer, error recovery, contextual functors) are shared by '
                      '4..32 threads, each making a random mix of parse / verbose parse into its own stream / parse without stream / write_diag_str calls on accepted, rejected and recovering inputs, with '
                      'random yields injected in functors and stream insertions; monitors: g++ ThreadSanitizer (report blocks counted), comparison of every result with the result computed '
                      'single-threaded beforehand, a shuffled single-threaded history, and the byte image of every parser object before/after; call start/end stamps give the number of really '
                      'overlapping call pairs per operation kind; evaluations = concurrent calls; distinct_nontrivial = distinct (parser, thread count) combinations')
    ck.assumptions += ['held on the schedules the OS produced; all interleavings are out of reach for this technique', 'user functors, contexts and streams are per call; only library state is shared']
    return ck.finish(floor_events=1000)

from . import capacity_check as capc

@register('C12')
def c12(tier):
    ck = Check('C12', tier)
    q = tier == 'quick'
    rnd = random.Random(common.seed() * 12007 + 12)
    # (1) pattern automaton size: analyzer prediction >= states built; exact-size compile-time instantiation
    pats = rxc.gen_patterns(rnd, 20000 if q else 600000, max_positions=120)
    reps = []
    for _ in range(400 if q else 6000):      # nested and large repetition counts
        ast = rxc.rr.gen_ast(rnd, rnd.choice([1, 2, 3]), rxc.rr.ALPHA_MED)
        ast = ('rep', ast, rnd.choice([5, 7, 12, 20, 33]))
        if rnd.random() < 0.4: ast = ('rep', ('grp', ast), rnd.choice([2, 3, 4]))
        if rnd.random() < 0.3: ast = ('cat', ast, ('star', rxc.rr.gen_ast(rnd, 1, rxc.rr.ALPHA_SMALL)))
        t = rxc.rr.finish_text(rxc.rr.render(ast))
        if t is not None and rxc.rr.positions_count(ast) <= 900: reps.append((ast, t))
    # repetition counts beyond the analyzer's 32-bit arithmetic (recorded finding): the predicted size wraps around, construction must still fail loudly
    for t in (b'a{4294967297}', b'(ab){2147483649}', b'[0-9]{00004294967296}x'):
        reps.append((rxc.rr.parse(t), t))
    merge(ck, common.pmap(rxc.judge_batch, [('C12', c, False, 'clang1') for c in chunks(pats + reps, 3000)]))
    ct = rxc.gen_patterns(rnd, 32 if q else 600, max_positions=30) + [x for x in reps if rxc.rr.positions_count(x[0]) <= 60][: (8 if q else 100)]
    merge(ck, common.pmap(rxc.judge_ct, [('C12', c, 'clang', common.seed() + i) for i, c in enumerate(chunks(ct, 8))]))
    # (2) default capacities of parse table and lexer automaton, both construction modes
    gs = gen_grammars('C12', tier, 120 if q else 2500, 'allclasses')
    gs = [g for g in gs if gg.classify(ref_lr1.build(g)) != 'acc'] + [lxc.token_grammar(ts, 'tokens') for ts in lxc.fixed_termsets()] + [lxc.token_grammar(lxc.gen_termset(rnd), 'tokens') for _ in range(16 if q else 300)]
    ncw, ncb = capc.near_cap_corpus(q)
    beyond = [g for g in gs + ncw + ncb if ref_lr1.beyond_default_cap(g)] + capc.beyond_cap_witnesses()
    gs = [g for g in gs if not ref_lr1.beyond_default_cap(g)]
    ncw = [g for g in ncw + ncb if not ref_lr1.beyond_default_cap(g)]
    ck.count('near_cap_grammars_within_default_cap', len(ncw))
    merge(ck, common.pmap(capc.default_caps_worker, [{'grammars': [g.to_json() for g in c]} for c in chunks(gs, 8)] + [{'grammars': [g.to_json()]} for g in ncw]))
    merge(ck, common.pmap(capc.beyond_cap_worker, [{'grammar': g.to_json()} for g in beyond] + [{'grammar': gg.shuffle_symbols(g, rnd).to_json()} for g in capc.beyond_cap_witnesses()]))
    # (3) user limits at need-1 / need / need+1
    lg = [g for g in gen_grammars('C12b', tier, 60 if q else 600, 'plain') if len(g.terms) <= 16 and ref_lr1.build(g).lr1 and 4 <= len(ref_lr1.build(g).states) <= 40]      # (run-time construction of every variant: small analysers only)
    rnd.shuffle(lg)
    from .grammar import simple
    lg = [simple('S->X t\nX->A B\nB->t | eps\nA->a | b | c | d | e | f | g | h'), simple('S->L\nL->eps | L I\nI->a O | b O\nO->eps | o')] + lg      # per-item closure tables next to the per-state cap
    merge(ck, common.pmap(capc.limits_worker, [{'grammar': g.to_json(), 'seed': common.seed() + i} for i, g in enumerate(lg[: (10 if q else 120)])]))
    # (4) fixed stacks used with cstring_buffer
    ng = capc.nullable_rich(rnd, 14 if q else 160)
    extra = [(b'(' * k + b')' * k).hex() for k in (1, 2, 3, 5, 8, 12, 20)]
    merge(ck, common.pmap(capc.stack_worker, [{'grammar': g.to_json(), 'seed': common.seed() + i, 'n_inputs': 14 if q else 40, 'extra_inputs': extra if i == 0 else []} for i, g in enumerate(ng)]))
    # literals longer than the 1024 entries reserved by the run-time stacks, parsed with a stack as deep as the text (right recursion, nesting)
    from .grammar import simple
    longs = [(simple('L->a L | b'), [b'a' * k + b'b' for k in (1020, 1023, 1100, 2050)]), (simple('S->( S ) | x'), [b'(' * k + b'x' + b')' * k for k in (511, 513, 700)])]
    merge(ck, common.pmap(capc.stack_worker, [{'grammar': g.to_json(), 'seed': 1, 'n_inputs': 0, 'n_boundary': 0, 'extra_inputs': [d.hex() for d in ins], 'long_literals': True} for g, ins in longs]))
    ck.cov['rule'] = ('(1) for generated patterns incl. nested and large {n}: dfa_size_analyzer prediction vs states created by the real builder, and exact-size regex::expr instantiations built by the constant '
                      'evaluator; (2) for generated parsers of all grammar classes and lexer term sets, constructed at compile time and at run time with default limits: states/items vs caps from the '
                      'diagnostics, lexer automaton size vs capacity, cvector hook; (3) two-stage: read the real state/item counts, then instantiate the same grammar with user limits need-1/need/need+1/large: '
                      'sufficient limits must give the same diagnostics and parse results, insufficient ones must be rejected (exception at run time, non-constant expression for g++ and clang++); '
                      '(4) grammars with runs of nullable symbols parsed from cstring_buffer literals (fixed stacks) vs string_buffer; distinct_nontrivial = distinct patterns/grammars/inputs over the four parts')
    ck.assumptions += ['the stack-capacity defect D6 is a recorded finding keyed by site', 'patterns needing more than 2048 automaton states are skipped by the run-time harness']
    return ck.finish(floor_events=1000)

def replay(prop, path):
    """re-runs exactly the recorded case where the replay file carries one (grammar + input, pattern, term set); otherwise the whole
    check with the recorded seed and tier"""
    rep = json.load(open(path))
    case = rep.get('case') or {}
    os.environ['VERIF_SEED'] = str(rep.get('seed', 1))
    ck = Check(prop, rep.get('tier', 'quick'))
    outs = None
    try:
        if isinstance(case, dict) and case.get('grammar') and prop in pipeline.JUDGES:
            from .grammar import Grammar
            g = Grammar.from_json(case['grammar'])
            modes = {'C01': [0], 'C02': [0, 3, 4], 'C05': [0], 'C08': [0, 1, 7, 9, 11], 'C09': [0, 3, 4, 8, 9], 'C10': [0, 3, 4, 7, 8, 9], 'C11': [1], 'C13': [0, 20, 21, 22, 23, 24, 25, 26, 27, 28, 29, 30, 31, 32, 33], 'C14': [0], 'C16': [0, 1, 2, 5, 6, 8, 9, 12, 13], 'C18': [0, 1, 3, 4, 7, 8, 9]}[prop]
            inputs = [case['input']] if case.get('input') is not None else ['']
            spec = {'prop': prop, 'grammars': [g.to_json()], 'seed': 1, 'flavour': 'clang', 'cfg': {'modes': modes, 'timeout': 300}, 'explicit_inputs': [inputs]}
            outs = [pipeline.worker(spec)]
        elif isinstance(case, dict) and case.get('pattern_hex') and prop in ('C03', 'C12'):
            t = bytes.fromhex(case['pattern_hex'])
            outs = [rxc.judge_batch((prop, [(rxc.rr.parse(t), t)], False, 'clang1'))]
        elif isinstance(case, dict) and case.get('termset') and prop == 'C04':
            outs = [lxc.worker({'seed': 1, 'termsets': [case['termset']], 'modes': [0, 7, 8, 9, 3, 4], 'n_inputs': 200, 'corpus': True})]
    except Exception as e:
        print('single-case replay not possible (%s); re-running the whole check' % e)
        outs = None
    if outs is None:
        print('replay of', path, '- re-running the full check for', prop, 'with seed', rep.get('seed'))
        return REGISTRY[prop](rep.get('tier', 'quick'))
    print('replay of the single recorded case of', path)
    os.environ['VERIF_EVDIR'] = os.path.join(common.WORK, 'replay-evidence')
    merge(ck, outs)
    ck.cov['rule'] = 'replay of one recorded case'
    ck.cov['distinct_nontrivial'] = max(2, ck.cov.get('distinct_nontrivial', 0))
    return ck.finish(floor_events=0)
