"""Reference regular-expression model for the documented syntax: AST -> text (the documented
concrete syntax), AST -> position automaton -> subset construction over byte classes, language
equivalence with an observed DFA (shortest distinguishing string), determinism classification,
and a longest-prefix matcher. Independent of ctpg's builder."""
import random, re as _re

# AST: ('set', frozenset(bytes), text) | ('cat', a, b) | ('alt', a, b) | ('star', a) | ('plus', a) | ('opt', a) | ('rep', a, n) | ('grp', a)

SPECIAL = set(b'*+?|(){}')
HEX = b'0123456789abcdefABCDEF'

def is_printable(b): return 0x20 <= b <= 0x7e

def render(ast, rnd=None):
    """AST -> pattern text (bytes) in the documented syntax, fully parenthesised where needed"""
    out = bytearray()
    _render(ast, out, 0)
    return bytes(out)

def _prec(ast):
    k = ast[0]
    if k == 'alt': return 0
    if k == 'cat': return 1
    if k in ('star', 'plus', 'opt', 'rep'): return 2
    return 3

def _render(ast, out, ctx):
    k = ast[0]
    need = _prec(ast) < ctx
    if need: out += b'('
    if k == 'set': out += ast[2]
    elif k == 'grp': out += b'('; _render(ast[1], out, 0); out += b')'
    elif k == 'cat': _render(ast[1], out, 1); _render(ast[2], out, 2 if ast[2][0] == 'cat' else 1)
    elif k == 'alt':
        # alt(alt, '|', alt) is ambiguous in the library's grammar (resolved by default shift = right nesting); semantics are associative
        _render(ast[1], out, 1); out += b'|'; _render(ast[2], out, 0)
    elif k == 'star': _render(ast[1], out, 3); out += b'*'
    elif k == 'plus': _render(ast[1], out, 3); out += b'+'
    elif k == 'opt': _render(ast[1], out, 3); out += b'?'
    elif k == 'rep': _render(ast[1], out, 3); out += b'{' + str(ast[2]).encode() + b'}'
    if need: out += b')'

def fix_short_hex(text):
    """a short hex escape (\\x or \\xH) must not be followed by a hex digit; the generator calls this to validate"""
    return True

# ---------------------------------------------------------------- primaries
def char_text(b, rnd, in_set=False):
    """one concrete spelling of byte b as a primary (or as a set item)"""
    forms = []
    if is_printable(b):
        if in_set:
            if b not in b']\\-^': forms.append(bytes([b]))
        else:
            if b not in SPECIAL and b not in b'.[\\': forms.append(bytes([b]))
        if b != ord('x'): forms.append(b'\\' + bytes([b]))
    forms.append(b'\\x%02x' % b); forms.append(b'\\x%02X' % b)
    if b < 16: forms.append(b'\\x%x\x01' % b)      # \x01 marks a short hex escape; finish_text() validates and strips it
    if b == 0: forms.append(b'\\x\x01')
    forms = [f for f in forms if f]
    if not rnd: return forms[0]
    # prefer the natural spelling
    return forms[0] if rnd.random() < 0.7 else rnd.choice(forms)

def gen_primary(rnd, alphabet):
    x = rnd.random()
    if x < 0.55:
        b = rnd.choice(alphabet)
        return ('set', frozenset([b]), char_text(b, rnd))
    if x < 0.62:
        return ('set', frozenset(range(256)), b'.')
    # a set
    inv = rnd.random() < 0.3
    items = []; s = set()
    for _ in range(rnd.choice([1, 1, 2, 2, 3, 4])):
        if rnd.random() < 0.45:
            a, b = sorted((rnd.choice(alphabet), rnd.choice(alphabet)))
            if rnd.random() < 0.3: b = min(255, a + rnd.choice([0, 1, 3, 9, 25]))
            items.append(char_text(a, rnd, True) + b'-' + char_text(b, rnd, True)); s |= set(range(a, b + 1))
        else:
            b = rnd.choice(alphabet)
            items.append(char_text(b, rnd, True)); s.add(b)
    # a raw '-' is a literal at either edge of the set
    x = rnd.random()
    if x < 0.08: items.insert(0, b'-'); s.add(0x2d)
    elif x < 0.2 and b'-' in items[-1].replace(b'\\-', b''): items.append(b'-'); s.add(0x2d)    # the pattern lexer takes a trailing '-' only after a range
    text = b'[' + (b'^' if inv else b'') + b''.join(items) + b']'
    if inv: s = set(range(256)) - s
    return ('set', frozenset(s), text)

ALPHA_SMALL = list(b'ab')
ALPHA_MED = list(b'abcxyz019_') + [0x20]
ALPHA_WIDE = list(b'abcdefgxyzAZ0189_-+*.|()[]{}^\\ ?') + [0, 9, 10, 0x7f, 0x80, 0xfe, 0xff]

def gen_ast(rnd, depth, alphabet, max_rep=4):
    if depth <= 0 or rnd.random() < 0.25:
        return gen_primary(rnd, alphabet)
    x = rnd.random()
    if x < 0.34: return ('cat', gen_ast(rnd, depth - 1, alphabet), gen_ast(rnd, depth - 1, alphabet))
    if x < 0.52: return ('alt', gen_ast(rnd, depth - 1, alphabet), gen_ast(rnd, depth - 1, alphabet))
    if x < 0.64: return ('star', gen_ast(rnd, depth - 1, alphabet))
    if x < 0.74: return ('plus', gen_ast(rnd, depth - 1, alphabet))
    if x < 0.84: return ('opt', gen_ast(rnd, depth - 1, alphabet))
    if x < 0.93: return ('rep', gen_ast(rnd, depth - 1, alphabet), rnd.choice([0, 1, 2, 2, 3, max_rep]))
    return ('grp', gen_ast(rnd, depth - 1, alphabet))

def finish_text(text):
    """strip the short-hex markers; None if a short hex escape would swallow a following hex digit"""
    out = bytearray(); i = 0
    while i < len(text):
        if text[i] == 1:
            if i + 1 < len(text) and text[i + 1] in HEX: return None
            i += 1; continue
        out.append(text[i]); i += 1
    return bytes(out)

def text_ok(text):
    """short hex escapes must not swallow a following literal hex digit"""
    for m in _re.finditer(rb'\\x([0-9a-fA-F]{0,2})', text):
        n = len(m.group(1)); e = m.end()
        if n < 2 and e < len(text) and text[e] in HEX: return False
    return True

def ast_size(ast):
    return 1 + sum(ast_size(x) for x in ast[1:] if isinstance(x, tuple))

def positions_count(ast):
    k = ast[0]
    if k == 'set': return 1
    if k == 'rep': return positions_count(ast[1]) * max(1, ast[2])
    return sum(positions_count(x) for x in ast[1:] if isinstance(x, tuple))

def analyzer_size_exact(ast):
    """the state count the library's size analysis stands for (2 per primary, X{n} multiplies), in unbounded arithmetic"""
    k = ast[0]
    if k == 'set': return 2
    if k == 'rep': return analyzer_size_exact(ast[1]) * max(1, ast[2])
    return sum(analyzer_size_exact(x) for x in ast[1:] if isinstance(x, tuple))

# ---------------------------------------------------------------- Glushkov automaton
def expand(ast):
    """eliminate rep/grp: rep(a, n) -> a a ... a (n copies), rep(a,0) -> epsilon"""
    k = ast[0]
    if k == 'set': return ast
    if k == 'grp': return expand(ast[1])
    if k == 'rep':
        a = expand(ast[1]); n = ast[2]
        if n == 0: return ('eps',)
        r = a
        for _ in range(n - 1): r = ('cat', r, a)
        return r
    if k in ('cat', 'alt'): return (k, expand(ast[1]), expand(ast[2]))
    return (k, expand(ast[1]))

class Glushkov:
    def __init__(self, ast):
        self.sets = []       # byteset per position
        self.follow = []
        e = expand(ast)
        self.nullable, self.first, self.last = self._walk(e)
    def _walk(self, a):
        k = a[0]
        if k == 'eps': return True, set(), set()
        if k == 'set':
            p = len(self.sets); self.sets.append(a[1]); self.follow.append(set())
            return False, {p}, {p}
        if k == 'cat':
            n1, f1, l1 = self._walk(a[1]); n2, f2, l2 = self._walk(a[2])
            for p in l1: self.follow[p] |= f2
            return n1 and n2, f1 | (f2 if n1 else set()), l2 | (l1 if n2 else set())
        if k == 'alt':
            n1, f1, l1 = self._walk(a[1]); n2, f2, l2 = self._walk(a[2])
            return n1 or n2, f1 | f2, l1 | l2
        n1, f1, l1 = self._walk(a[1])
        if k in ('star', 'plus'):
            for p in l1: self.follow[p] |= f1
        return (n1 or k in ('star', 'opt')), f1, l1
    def deterministic(self):
        """no two positions with intersecting byte sets in the first set or in any follow set"""
        def clash(ps):
            seen = set()
            for p in ps:
                s = self.sets[p]
                if seen & s: return True
                seen |= s
            return False
        if clash(self.first): return False
        return not any(clash(f) for f in self.follow)

class RefDFA:
    """subset construction over the byte classes induced by the sets of the pattern"""
    def __init__(self, ast, state_cap=20000):
        g = Glushkov(ast); self.g = g
        # byte classes
        sig = {}
        for b in range(256):
            key = tuple(b in s for s in g.sets)
            sig.setdefault(key, []).append(b)
        self.classes = list(sig.values())          # list of byte lists
        self.class_of = [0] * 256
        for ci, bs in enumerate(self.classes):
            for b in bs: self.class_of[b] = ci
        rep = [bs[0] for bs in self.classes]
        START = -1
        start = frozenset([START])
        self.index = {start: 0}; self.trans = []; self.accept = []
        work = [start]; order = [start]
        lastset = g.last
        while work:
            st = work.pop()
            i = self.index[st]
            while len(self.trans) <= i: self.trans.append(None); self.accept.append(False)
            self.accept[i] = (START in st and g.nullable) or any(p in lastset for p in st if p != START)
            row = []
            for ci, b in enumerate(rep):
                nxt = set()
                for p in st:
                    cand = g.first if p == START else g.follow[p]
                    for q in cand:
                        if b in g.sets[q]: nxt.add(q)
                if not nxt: row.append(-1); continue
                fs = frozenset(nxt)
                j = self.index.get(fs)
                if j is None:
                    j = len(self.index); self.index[fs] = j; work.append(fs)
                    if j > state_cap: raise OverflowError('reference DFA too large')
                row.append(j)
            self.trans[i] = row
    def step(self, s, b):
        if s < 0: return -1
        return self.trans[s][self.class_of[b]]
    def full_match(self, data):
        s = 0
        for b in data:
            s = self.step(s, b)
            if s < 0: return False
        return self.accept[s]
    def longest_prefix(self, data, pos=0):
        """length of the longest non-empty-or-empty prefix of data[pos:] in the language; -1 if none"""
        s = 0; best = 0 if self.accept[0] else -1; n = 0
        for b in data[pos:]:
            s = self.step(s, b)
            if s < 0: break
            n += 1
            if self.accept[s]: best = n
        return best

class ObsDFA:
    """automaton observed in the library's memory: list of dict(rec, runs) from diag.parse_dfa_dump"""
    def __init__(self, states, term=0):
        self.n = len(states)
        self.tr = []
        for st in states:
            row = [-1] * 256
            for lo, hi, t in st['runs']:
                for b in range(lo, hi + 1): row[b] = t
            self.tr.append(row)
        self.acc = [st['rec'][0] == term for st in states]
        self.rec = [st['rec'] for st in states]
    def step(self, s, b):
        if s < 0 or s >= self.n: return -1
        return self.tr[s][b]

def equivalent(ref, obs, max_pairs=200000):
    """product search; returns None if the languages are equal, else a shortest distinguishing byte string"""
    if obs.n == 0:
        start_obs = -1
    else:
        start_obs = 0
    seen = {(0, start_obs): None}
    queue = [(0, start_obs)]
    qi = 0
    def acc(r, o):
        return (ref.accept[r] if r >= 0 else False), (obs.acc[o] if 0 <= o < obs.n else False)
    while qi < len(queue):
        r, o = queue[qi]; qi += 1
        a, b = acc(r, o)
        if a != b:
            # rebuild witness
            w = bytearray(); cur = (r, o)
            while seen[cur] is not None:
                prev, byte = seen[cur]; w.append(byte); cur = prev
            return bytes(reversed(w))
        if len(seen) > max_pairs: raise OverflowError('product too large')
        # successors: one representative byte per (ref class x distinct obs target)
        done = set()
        for byte in range(256):
            rn = ref.step(r, byte) if r >= 0 else -1
            on = obs.step(o, byte) if o >= 0 else -1
            if rn < 0 and on < 0: continue
            key = (rn, on)
            if key in done: continue
            done.add(key)
            if key not in seen:
                seen[key] = ((r, o), byte); queue.append(key)
    return None

# ---------------------------------------------------------------- translation to Python's re for the self-test
def to_python_re(ast):
    k = ast[0]
    if k == 'set':
        s = ast[1]
        if len(s) == 256: return b'[\\x00-\\xff]'
        return b'[' + b''.join(b'\\x%02x' % b for b in sorted(s)) + b']'
    if k == 'grp': return to_python_re(ast[1])
    if k == 'cat': return b'(?:' + to_python_re(ast[1]) + to_python_re(ast[2]) + b')'
    if k == 'alt': return b'(?:' + to_python_re(ast[1]) + b'|' + to_python_re(ast[2]) + b')'
    if k == 'star': return b'(?:' + to_python_re(ast[1]) + b')*'
    if k == 'plus': return b'(?:' + to_python_re(ast[1]) + b')+'
    if k == 'opt': return b'(?:' + to_python_re(ast[1]) + b')?'
    if k == 'rep': return b'(?:' + to_python_re(ast[1]) + b'){%d}' % ast[2]

def selftest(n=400, seed=99):
    rnd = random.Random(seed)
    checked = 0
    for i in range(n):
        ast = gen_ast(rnd, rnd.choice([1, 2, 3, 4]), rnd.choice([ALPHA_SMALL, ALPHA_MED, ALPHA_WIDE]))
        if positions_count(ast) > 40: continue
        ref = RefDFA(ast)
        pr = _re.compile(to_python_re(ast), _re.S)
        alpha = sorted({b for s in ref.g.sets for b in list(s)[:3]} | {0x61, 0})
        for _ in range(60):
            w = bytes(rnd.choice(alpha) for _ in range(rnd.randint(0, 7)))
            a = ref.full_match(w); b = pr.fullmatch(w) is not None
            checked += 1
            if a != b:
                print('SELFTEST FAILED ref_regex vs python re:', render(ast), w, a, b); return 1
    print('selftest ok: ref_regex == python re on %d (pattern,string) pairs' % checked)
    return 0

# enumeration of all small ASTs over a tiny alphabet (seed-independent corpus)
def small_asts(max_prims, alphabet=(0x61, 0x62)):
    prim = [('set', frozenset([b]), bytes([b])) for b in alphabet]
    by_n = {1: list(prim)}
    for n in range(1, max_prims + 1):
        cur = by_n.setdefault(n, [])
        if n > 1:
            for k in range(1, n):
                for a in by_n[k]:
                    for b in by_n[n - k]:
                        cur.append(('cat', a, b)); cur.append(('alt', a, b))
        base = list(cur)
        for a in base:
            if a[0] not in ('star', 'plus', 'opt', 'rep'):
                for op in ('star', 'plus', 'opt'): cur.append((op, a))
                cur.append(('rep', a, 2))
                if n <= 2: cur.append(('rep', a, 0)); cur.append(('rep', a, 3))
    out = []
    for n in range(1, max_prims + 1): out.extend(by_n[n])
    return out

# ---------------------------------------------------------------- parser of the documented concrete syntax (for hand-written corpus patterns)
class PatternError(Exception): pass

def parse(text):
    """pattern bytes -> AST following the documented syntax; raises PatternError outside it"""
    pos = [0]; n = len(text)
    def peek(): return text[pos[0]] if pos[0] < n else None
    def char(in_set):
        c = peek()
        if c is None: raise PatternError('unexpected end')
        if c == 0x5c:
            pos[0] += 1; d = peek()
            if d is None: raise PatternError('dangling backslash')
            if d == ord('x'):
                pos[0] += 1; v = 0; k = 0
                while k < 2 and peek() is not None and peek() in HEX:
                    v = v * 16 + int(chr(peek()), 16); pos[0] += 1; k += 1
                return v
            if not is_printable(d): raise PatternError('escaped non-printable')
            pos[0] += 1; return d
        if not is_printable(c): raise PatternError('raw non-printable byte')
        pos[0] += 1; return c
    def cset():
        start = pos[0]; pos[0] += 1
        inv = False
        if peek() == ord('^'): inv = True; pos[0] += 1
        s = set(); items = 0
        while True:
            c = peek()
            if c is None: raise PatternError('unterminated set')
            if c == ord(']'): pos[0] += 1; break
            a = char(True); items += 1
            if peek() == ord('-') and pos[0] + 1 < n and text[pos[0] + 1] != ord(']'):
                pos[0] += 1; b = char(True)
                if b < a: raise PatternError('reversed range')
                s |= set(range(a, b + 1))
            elif peek() == ord('-') and pos[0] + 1 >= n: raise PatternError('unterminated set')
            else: s.add(a)
        if items == 0: raise PatternError('empty set')
        if inv: s = set(range(256)) - s
        return ('set', frozenset(s), text[start:pos[0]])
    def primary():
        c = peek()
        if c is None: raise PatternError('unexpected end')
        if c == ord('('):
            pos[0] += 1; e = alt()
            if peek() != ord(')'): raise PatternError('unbalanced group')
            pos[0] += 1; return ('grp', e)
        if c == ord('['): return cset()
        if c == ord('.'): pos[0] += 1; return ('set', frozenset(range(256)), b'.')
        if c in SPECIAL: raise PatternError('unexpected %c' % c)
        start = pos[0]; v = char(False)
        return ('set', frozenset([v]), text[start:pos[0]])
    def q():
        p = primary(); c = peek()
        if c == ord('*'): pos[0] += 1; return ('star', p)
        if c == ord('+'): pos[0] += 1; return ('plus', p)
        if c == ord('?'): pos[0] += 1; return ('opt', p)
        if c == ord('{'):
            pos[0] += 1; d = 0; k = 0
            while peek() is not None and 0x30 <= peek() <= 0x39: d = d * 10 + peek() - 0x30; pos[0] += 1; k += 1
            if k == 0 or peek() != ord('}'): raise PatternError('bad repetition')
            pos[0] += 1; return ('rep', p, d)
        return p
    def cat():
        a = q()
        while peek() is not None and peek() not in b'|)':
            a = ('cat', a, q())
        return a
    def alt():
        a = cat()
        if peek() == ord('|'):
            pos[0] += 1; return ('alt', a, alt())
        return a
    e = alt()
    if pos[0] != n: raise PatternError('trailing %r' % text[pos[0]:])
    return e

HAND_PATTERNS = [
    # readme table
    rb'a', rb'\|', rb'\x20', rb'.', rb'[a-z]', rb'[abc]', rb'[^a-z]', rb'[^!]', rb'[_a-zA-Z]', rb'ab', rb'a*', rb'a+', rb'a?', rb'a{4}', rb'a|b', rb'(a|b)*',
    # repository tests
    rb's', rb'ss', rb'\+', rb'\x', rb'\x2', rb'\xa', rb'\xA', rb'\xaf', rb'\xAD', rb'[^abc]', rb'[a-zA-Z_0-9]', rb'[[{}()|+*?^.\]]', rb'[--Z-]',
    rb'a{5}', rb'a|bc*', rb'0|[1-9][0-9]*', rb'a*b|a*', rb'[1-9][0-9]+',
    # examples
    rb'[a-zA-Z_][a-zA-Z_0-9]*', rb'\-?(0|[1-9][0-9]*)(\.[0-9]+)?((e|E)(\+|\-)[0-9]+)?', rb'\-?(0|[1-9][0-9]*)(\.[0-9]+)?((e|E)(\+|\-)?[0-9]+)?',
    rb'"([^\\"\x00-\x1F]|\\[\\"/bfnrt]|\\u[0-9A-Fa-f]{4})*"', rb'[1-9][0-9]*', rb'[0-9a-zA-Z_]+', rb'[A-Za-z]+',
    # typical lexer shapes
    rb'[0-9]+', rb'[0-9]+\.[0-9]+', rb'[0-9]+(\.[0-9]+)?', rb'0x[0-9a-fA-F]+', rb'"[^"]*"', rb'//[^\x0a]*', rb'/\*([^*]|\*[^/])*\*/', rb'if|else|while|for|return',
    rb'ab|ac', rb'abc|abd|abe', rb'(ab|ac)d', rb'a(b|c)d', rb'(a|b)(c|d)', rb'=|==|===', rb'<|<=|<<|<<=', rb'[ \x09]+', rb'\x0d?\x0a', rb'(\x0d\x0a)+', rb'.*', rb'.+', rb'.?x',
    rb'(ab)*', rb'(ab)+', rb'(ab)?c', rb'(abc){2}', rb'(a|b){3}', rb'a{0}', rb'(ab){0}c', rb'a{1}', rb'a{10}', rb'(a{2}){3}', rb'[a-c]{2}[x-z]{2}',
    rb'\x00', rb'\xff+', rb'[\x80-\xff]+', rb'[^\x00-\x7f]', rb'\.', rb'\\', rb'\(\)', rb'\[\]', rb'\{\}', rb'a\*', rb'[\-]', rb'[\]]', rb'[\^]', rb'[a\-z]', rb'1', rb'12', rb'1{2}', rb'[0-9]{3}-[0-9]{4}',
]

def hand_corpus():
    out = []
    for t in HAND_PATTERNS:
        out.append((parse(t), t))
    return out

# ---------------------------------------------------------------- several terms at once: tagged automaton (first-listed priority)
class TaggedRefDFA:
    """subset construction over the union of the terms' position automata; accept tag = lowest term index"""
    def __init__(self, asts, state_cap=20000):
        self.gl = [Glushkov(a) for a in asts]
        sets = []; self.owner = []; self.base = []
        for ti, g in enumerate(self.gl):
            self.base.append(len(sets))
            for s in g.sets: sets.append(s); self.owner.append(ti)
        self.sets = sets
        sig = {}
        for b in range(256):
            key = tuple(b in s for s in sets)
            sig.setdefault(key, []).append(b)
        self.classes = list(sig.values()); self.class_of = [0] * 256
        for ci, bs in enumerate(self.classes):
            for b in bs: self.class_of[b] = ci
        rep = [bs[0] for bs in self.classes]
        first = set(); follow = [None] * len(sets); last = set()
        for ti, g in enumerate(self.gl):
            o = self.base[ti]
            first |= {o + p for p in g.first}; last |= {o + p for p in g.last}
            for p, f in enumerate(g.follow): follow[o + p] = {o + q for q in f}
        START = -1
        start = frozenset([START]); self.index = {start: 0}; self.trans = []; self.tag = []
        work = [start]
        nullable_tags = [ti for ti, g in enumerate(self.gl) if g.nullable]
        while work:
            st = work.pop(); i = self.index[st]
            while len(self.trans) <= i: self.trans.append(None); self.tag.append(-1)
            tags = [self.owner[p] for p in st if p != START and p in last]
            if START in st: tags += nullable_tags
            self.tag[i] = min(tags) if tags else -1
            row = []
            for b in rep:
                nxt = set()
                for p in st:
                    for q in (first if p == START else follow[p]):
                        if b in sets[q]: nxt.add(q)
                if not nxt: row.append(-1); continue
                fs = frozenset(nxt); j = self.index.get(fs)
                if j is None:
                    j = len(self.index); self.index[fs] = j; work.append(fs)
                    if j > state_cap: raise OverflowError('reference DFA too large')
                row.append(j)
            self.trans[i] = row
    def step(self, s, b):
        return -1 if s < 0 else self.trans[s][self.class_of[b]]
    def longest(self, data, pos):
        """(term, length) of the longest non-empty match at pos, first-listed term on ties; (None, 0) if none"""
        s = 0; best = (None, 0); n = 0
        for k in range(pos, len(data)):
            s = self.step(s, data[k])
            if s < 0: break
            n += 1
            if self.tag[s] >= 0: best = (self.tag[s], n)
        return best
    def deterministic(self):
        """the union needs no determinisation: no two positions with intersecting byte sets in the joint first set or in any follow set"""
        def clash(ps):
            seen = set()
            for p in ps:
                if seen & self.sets[p]: return True
                seen |= self.sets[p]
            return False
        first = set()
        for ti, g in enumerate(self.gl): first |= {self.base[ti] + p for p in g.first}
        if clash(first): return False
        for ti, g in enumerate(self.gl):
            for f in g.follow:
                if clash({self.base[ti] + q for q in f}): return False
        return True

def tagged_equivalent(ref, obs, max_pairs=300000):
    """obs: ObsDFA with .rec; returns None or a shortest string on which the winning term differs"""
    def otag(o):
        if o < 0 or o >= obs.n: return -1
        return obs.rec[o][0]
    seen = {(0, 0 if obs.n else -1): None}; queue = [(0, 0 if obs.n else -1)]; qi = 0
    while qi < len(queue):
        r, o = queue[qi]; qi += 1
        # the empty string is never a lexeme: tags are compared on non-empty strings only
        if seen[(r, o)] is not None and (ref.tag[r] if r >= 0 else -1) != otag(o):
            w = bytearray(); cur = (r, o)
            while seen[cur] is not None:
                prev, byte = seen[cur]; w.append(byte); cur = prev
            return bytes(reversed(w))
        if len(seen) > max_pairs: raise OverflowError('product too large')
        done = set()
        for byte in range(256):
            rn = ref.step(r, byte) if r >= 0 else -1
            on = obs.step(o, byte) if o >= 0 else -1
            if rn < 0 and on < 0: continue
            key = (rn, on)
            if key in done: continue
            done.add(key)
            if key not in seen: seen[key] = ((r, o), byte); queue.append(key)
    return None

def sample_string(ast, rnd, depth=0):
    """a random member of the language of ast"""
    k = ast[0]
    if k == 'set':
        s = ast[1]
        if not s: return b''      # empty set: the language is empty, any string will do for the callers
        pref = [b for b in s if 0x20 < b < 0x7f]
        return bytes([rnd.choice(pref if pref and rnd.random() < 0.9 else sorted(s))])
    if k == 'grp': return sample_string(ast[1], rnd, depth)
    if k == 'cat': return sample_string(ast[1], rnd, depth) + sample_string(ast[2], rnd, depth)
    if k == 'alt': return sample_string(ast[1 + (rnd.random() < 0.5)], rnd, depth)
    if k == 'star': return b''.join(sample_string(ast[1], rnd, depth + 1) for _ in range(rnd.choice([0, 1, 2, 3] if depth < 2 else [0, 1])))
    if k == 'plus': return b''.join(sample_string(ast[1], rnd, depth + 1) for _ in range(rnd.choice([1, 2, 3] if depth < 2 else [1])))
    if k == 'opt': return sample_string(ast[1], rnd, depth) if rnd.random() < 0.5 else b''
    if k == 'rep': return b''.join(sample_string(ast[1], rnd, depth) for _ in range(ast[2]))


def long_sample(ast, rnd, n):
    """a member of the language of about n bytes, obtained by iterating the outermost loops many times (None if the language is finite)"""
    k = ast[0]
    if k == 'set': return None
    if k == 'grp': return long_sample(ast[1], rnd, n)
    if k in ('star', 'plus'):
        unit = sample_string(ast[1], rnd)
        if not unit:
            for _ in range(10):
                unit = sample_string(ast[1], rnd)
                if unit: break
        if not unit: return None
        return unit * (n // len(unit) + 1)
    if k == 'cat':
        a = long_sample(ast[1], rnd, n)
        if a is not None: return a + sample_string(ast[2], rnd)
        b = long_sample(ast[2], rnd, n)
        if b is not None: return sample_string(ast[1], rnd) + b
        return None
    if k == 'alt':
        return long_sample(ast[1], rnd, n) or long_sample(ast[2], rnd, n)
    if k == 'opt': return long_sample(ast[1], rnd, n)
    if k == 'rep':
        if ast[2] == 0: return None
        a = long_sample(ast[1], rnd, n)
        return None if a is None else a + b''.join(sample_string(ast[1], rnd) for _ in range(ast[2] - 1))
