"""Parse write_diag_str text, the hook dump and verbose traces back into structures."""
import re

class Diag: pass

def parse_diag(text):
    d = Diag(); d.rules = []; d.states = []; d.header = {}; d.lex = []
    lines = text.split('\n')
    i = 0
    m = re.search(r'Number of states: (\d+)\(cap: (\d+)\)', text)
    if m: d.header['states'] = int(m.group(1)); d.header['state_cap'] = int(m.group(2))
    m = re.search(r'Max number of situations per state: (\d+)\(cap: (\d+)\)', text)
    if m: d.header['max_sit'] = int(m.group(1)); d.header['sit_cap'] = int(m.group(2))
    m = re.search(r'Parser object size: (\d+)', text)
    if m: d.header['size'] = int(m.group(1))
    sect = None; cur = None
    for ln in lines:
        if ln == 'RULES': sect = 'rules'; continue
        if ln == 'STATES': sect = 'states'; continue
        if ln == 'LEXICAL ANALYZER': sect = 'lex'; cur = None; continue
        if sect == 'rules':
            m = re.match(r'^(\d+)    (\S+) <- ?(.*)$', ln)
            if m: d.rules.append((int(m.group(1)), m.group(2), tuple(m.group(3).split())))
        elif sect == 'states':
            m = re.match(r'^STATE (\d+)$', ln)
            if m:
                cur = {'idx': int(m.group(1)), 'items': [], 'goto': {}, 'act': {}, 'raw': []}
                d.states.append(cur); continue
            if cur is None or not ln: continue
            m = re.match(r'^(\S+) <- (.*?)==> (.+)$', ln)
            if m and ' . ' in (' ' + m.group(2)) or (m and m.group(2).startswith('. ')):
                lhs = m.group(1); body = m.group(2).split(); la = m.group(3)
                dot = body.index('.')
                rhs = tuple(body[:dot] + body[dot + 1:])
                cur['items'].append((lhs, rhs, dot, la)); continue
            m = re.match(r'^On (.+?) go to (\d+)$', ln)
            if m: cur['goto'][m.group(1)] = int(m.group(2)); continue
            m = re.match(r'^On (.+?) shift to (\d+)$', ln)
            if m: cur['act'][m.group(1)] = ('sh', int(m.group(2))); continue
            m = re.match(r'^On (.+?) reduce using \((\d+)\)$', ln)
            if m: cur['act'][m.group(1)] = ('red', int(m.group(2))); continue
            m = re.match(r'^On (.+?) success $', ln)
            if m: cur['act'][m.group(1)] = ('acc',); continue
            m = re.match(r'^On (.+?) S/R CONFLICT, prefer reduce\((\d+)\) over shift$', ln)
            if m: cur['act'][m.group(1)] = ('sr-red', int(m.group(2))); continue
            m = re.match(r'^On (.+?) S/R CONFLICT, prefer shift over reduce\((\d+)\)$', ln)
            if m: cur['act'][m.group(1)] = ('sr-sh', int(m.group(2))); continue
            m = re.match(r'^On (.+?) R/R CONFLICT - !!! FIX IT !!! $', ln)
            if m: cur['act'][m.group(1)] = ('rr',); continue
            cur['raw'].append(ln)
        elif sect == 'lex':
            if ln.startswith('STATE '): d.lex.append(ln)
    d.has_sr = any(a[0].startswith('sr') for s in d.states for a in s['act'].values())
    d.has_rr = any(a[0] == 'rr' for s in d.states for a in s['act'].values())
    d.unparsed = [l for s in d.states for l in s['raw']]
    return d

class Dump: pass

def parse_dump(text):
    d = Dump(); d.k = None; d.ri = {}; d.items = {}; d.cells = {}
    for ln in text.split('\n'):
        p = ln.split()
        if not p: continue
        if p[0] == 'K':
            names = ['term_count', 'nterm_count', 'rule_count', 'situation_size', 'state_count', 'state_cap', 'sit_cap', 'max_rule', 'empty_rules', 'lexer_dfa_size', 'sizeof']
            d.k = dict(zip(names, map(int, p[1:])))
        elif p[0] == 'RI':
            d.ri[int(p[1])] = (int(p[2]), int(p[3]), int(p[4]))   # l_idx, r_idx, r_elements
        elif p[0] == 'I':
            st = int(p[1]); its = set()
            vals = [x for x in p[2:]]
            cur = []
            for x in vals:
                if x == '/':
                    its.add(tuple(cur)); cur = []
                else: cur.append(int(x))
            d.items[st] = its
        elif p[0] == 'T':
            d.cells[(int(p[1]), int(p[2]))] = (int(p[3]), int(p[4]), int(p[5]))   # kind, arg, sr
    return d

KINDS = {0: 'error', 1: 'success', 2: 'shift', 3: 'shift_err', 4: 'reduce', 5: 'rr'}

def parse_dfa_dump(text):
    """'Q i end unreachable c0 c1 c2 c3 runs...' -> list of dict(end, unreachable, rec[4], trans{byte: state})"""
    out = []
    for ln in text.split('\n'):
        p = ln.split()
        if not p or p[0] != 'Q': continue
        st = {'end': int(p[2]), 'unreachable': int(p[3]), 'rec': [int(x) for x in p[4:8]], 'runs': []}
        for r in p[8:]:
            a, t = r.split('>'); lo, hi = a.split('-')
            st['runs'].append((int(lo), int(hi), int(t)))
        out.append(st)
    return out

# ---------------------------------------------------------------- verbose trace
TRACE_RE = re.compile(r'^\[(\d+):(\d+)\] (PARSE|REGEX MATCH|LEXER MATCH): (.*)$')

def parse_trace(text):
    """verbose stream text -> list of events: ('rec', name, l, c), ('sh', state, lexeme), ('red', rule), ('goto', state),
    ('acc',), ('syntax', name, l, c), ('unexp', byte), ('enter-rec',), ('leave-rec',), ('enter-cons',), ('leave-cons',),
    ('consume', name), ('pop', state), ('giveup',), ('rr',), ('other', text)"""
    ev = []
    # lexemes may contain newlines: split on the '[l:c] ' line starts instead of '\n'
    parts = re.split(r'(?m)^(?=\[\d+:\d+\] (?:PARSE|REGEX MATCH|LEXER MATCH): )', text)
    for part in parts:
        if not part: continue
        m = re.match(r'^\[(\d+):(\d+)\] (PARSE|REGEX MATCH|LEXER MATCH): (.*)\n?$', part, re.S)
        if not m:
            ev.append(('other', part)); continue
        l, c, kind, body = int(m.group(1)), int(m.group(2)), m.group(3), m.group(4)
        if body.endswith('\n'): body = body[:-1]
        if kind != 'PARSE':
            ev.append(('lex', kind, body, l, c)); continue
        mm = re.match(r'^Recognized (.*) $', body, re.S)
        if mm: ev.append(('rec', mm.group(1), l, c)); continue
        mm = re.match(r'^Shift to (\d+), term: (.*)$', body, re.S)
        if mm: ev.append(('sh', int(mm.group(1)), mm.group(2), l, c)); continue
        mm = re.match(r'^Reduced using rule (\d+)  (.*)$', body, re.S)
        if mm: ev.append(('red', int(mm.group(1)), mm.group(2), l, c)); continue
        mm = re.match(r'^Go to (\d+)$', body)
        if mm: ev.append(('goto', int(mm.group(1)))); continue
        if body == 'Success ': ev.append(('acc',)); continue
        mm = re.match(r"^Syntax error: Unexpected '(.*)'$", body, re.S)
        if mm: ev.append(('syntax', mm.group(1), l, c)); continue
        mm = re.match(r'^Unexpected character: (.*)$', body, re.S)
        if mm: ev.append(('unexp', mm.group(1), l, c)); continue
        if body == 'Entering recovery mode ': ev.append(('enter-rec',)); continue
        if body == 'Leaving recovery mode ': ev.append(('leave-rec',)); continue
        if body == 'Entering consume mode ': ev.append(('enter-cons',)); continue
        if body == 'Leaving consume mode ': ev.append(('leave-cons',)); continue
        mm = re.match(r'^Recovery, consuming term (.*) $', body, re.S)
        if mm: ev.append(('consume', mm.group(1), l, c)); continue
        mm = re.match(r'^Recovering to state (\d+)$', body)
        if mm: ev.append(('pop', int(mm.group(1)))); continue
        if body == 'Could not recover from error ': ev.append(('giveup',)); continue
        if body == 'R/R conflict encountered ': ev.append(('rr',)); continue
        ev.append(('other', body))
    return ev
