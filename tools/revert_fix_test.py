#!/usr/bin/env python3
"""revert_fix_test.py <commit> <checks,comma> : reverts one fix: commit in a scratch worktree of /repo HEAD and runs the checks against it
(each must report the original defect again; a `fixed:` entry suppresses nothing)."""
import os, sys, subprocess, json, time
ROOT = os.path.dirname(os.path.dirname(os.path.abspath(__file__)))
commit, checks = sys.argv[1], sys.argv[2].split(',')
wt = '/tmp/rv_%s' % commit
subprocess.run('git -C /repo worktree add --detach %s HEAD' % wt, shell=True, capture_output=True)
res = {}
try:
    r = subprocess.run('git -C %s revert --no-commit %s' % (wt, commit), shell=True, capture_output=True, text=True)
    res['revert'] = r.returncode
    for c in checks:
        env = dict(os.environ); env['VERIF_REPO'] = wt
        t = time.time()
        r = subprocess.run([os.path.join(ROOT, 'bin', 'check'), c], capture_output=True, text=True, env=env)
        lines = [l for l in r.stdout.splitlines() if not l.startswith('KNOWN-FINDING')]
        res[c] = {'exit': r.returncode, 'wall': round(time.time() - t, 1), 'first': [l[:300] for l in lines if l.startswith('  #')][:2]}
finally:
    subprocess.run('git -C /repo worktree remove --force %s' % wt, shell=True, capture_output=True)
print(commit, json.dumps(res, indent=1))
