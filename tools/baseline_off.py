#!/usr/bin/env python3
"""Builds the repository's own test suite out of tree with the verification guard OFF and runs it."""
import os, subprocess, sys, shutil
ROOT = os.path.dirname(os.path.dirname(os.path.abspath(__file__)))
REPO = os.environ.get('VERIF_REPO', '/repo')
bd = os.path.join(ROOT, '.work', 'baseline_off')
shutil.rmtree(bd, ignore_errors=True); os.makedirs(bd)
def sh(cmd):
    print('+', ' '.join(cmd)); sys.stdout.flush()
    return subprocess.call(cmd)
rc = sh(['cmake', '-G', 'Ninja', '-S', REPO, '-B', bd, '-DCMAKE_BUILD_TYPE=RelWithDebInfo', '-DCMAKE_CXX_FLAGS=-Wno-error'])
rc = rc or sh(['cmake', '--build', bd, '-j', '16'])
rc = rc or sh(['ctest', '--test-dir', bd, '-j8', '--timeout', '900', '--output-junit', os.path.join(bd, 'junit.xml')])
sys.exit(rc)
