#!/usr/bin/env python3
"""Offline setup: nothing to download or build ahead of time (all binaries are built on demand from
/repo's current tree); runs the self-tests of the reference models so a broken oracle is noticed first."""
import os, sys, subprocess
ROOT = os.path.dirname(os.path.dirname(os.path.abspath(__file__)))
os.makedirs(os.path.join(ROOT, '.work'), exist_ok=True)
os.makedirs(os.path.join(ROOT, 'evidence'), exist_ok=True)
sys.path.insert(0, os.path.join(ROOT, 'lib'))
from vf import selftest
sys.exit(selftest.main())
