#!/usr/bin/env python3
"""Maintenance tool (never run by a check): appends to corpus/regex_corpus.txt patterns from the classes that are keyed to the D8/D8b
findings (need determinisation / nested loops) for which the matcher is RIGHT on the current tree, so that they become obligations
(a regression inside those classes is then reported instead of being counted under the class finding)."""
import os, sys, random
ROOT = os.path.dirname(os.path.dirname(os.path.abspath(__file__)))
sys.path.insert(0, os.path.join(ROOT, 'lib'))
from vf import regex_check as rxc, ref_regex as rr, common
want = int(sys.argv[1]) if len(sys.argv) > 1 else 6000
have = {t for _, t in rxc.corpus()}
rnd = random.Random(20261004)
cands = []
while len(cands) < want * 3:
    for ast, t in rxc.gen_patterns(rnd, 2000, max_positions=40):
        if t in have: continue
        if rr.Glushkov(ast).deterministic() and not rxc.nested_loop(ast): continue
        have.add(t); cands.append((ast, t))
def job(c):
    out = rxc.judge_batch(('C03', c, True, 'clang1'))
    bad = {v[2]['pattern_hex'] for v in out['viol'] if 'pattern_hex' in v[2]}
    return [t for _, t in c if t.hex() not in bad], out['incon']
good = []
for g, inc in common.pmap(job, [cands[i:i + 1000] for i in range(0, len(cands), 1000)]):
    if inc: print('inconclusive batch skipped', inc[:1]); continue
    good += g
good = good[:want]
with open(os.path.join(ROOT, 'corpus', 'regex_corpus.txt'), 'a') as f:
    f.write('# patterns needing determinisation / with nested loops whose matcher is right on the tree of 2026-10 (tools/extend_regex_corpus.py)\n')
    for t in good: f.write(t.hex() + '\n')
print('appended', len(good), 'of', len(cands), 'candidates')
