#!/usr/bin/env python3
"""Maintenance tool (never run by a check): prints `finding:` lines for the members of the fixed regex
corpus whose matcher is wrong on the current tree, for review and manual inclusion in known_findings.txt."""
import os, sys
ROOT = os.path.dirname(os.path.dirname(os.path.abspath(__file__)))
sys.path.insert(0, os.path.join(ROOT, 'lib'))
from vf import regex_check as rxc, common
def job(c):
    out = rxc.judge_batch(('C03', c, True, 'clang1'))
    return [(v[0][0], v[2]) for v in out['viol'] if 'witness' in v[2]]
c = rxc.corpus()
rs = common.pmap(job, [c[i:i + 500] for i in range(0, len(c), 500)])
seen = set()
for r in rs:
    for key, rep in r:
        if key in seen: continue
        seen.add(key)
        cls = 'D8b nested loops' if rep['deterministic'] else 'D8 needs determinisation'
        print('finding: property=C03 key=%s pattern %s (hex %s) %s the string hex %s [%s]' % (
            key.replace('input:', 'input:'), ascii(rep['pattern']), rep['pattern_hex'], 'accepts' if rep['matcher_says'] else 'rejects', rep['witness_hex'], cls))
