#!/usr/bin/env python3
"""verify_seed.py <patch.diff> <demo.cpp> [--checks C01,C02] [--tier quick]
Confirms a seeded change in a scratch worktree of /repo HEAD: demo passes without / fails with the change,
the repository's tests still pass with it; then runs the given checks against the changed tree."""
import os, sys, subprocess, shutil, argparse, json, time
ap = argparse.ArgumentParser(); ap.add_argument('patch'); ap.add_argument('demo'); ap.add_argument('--checks', default=''); ap.add_argument('--tier', default='quick')
ap.add_argument('--skip-tests', action='store_true'); ap.add_argument('--keep', action='store_true')
a = ap.parse_args()
ROOT = os.path.dirname(os.path.dirname(os.path.abspath(__file__)))
wt = '/tmp/vs_%d' % os.getpid()
def sh(cmd, **kw):
    return subprocess.run(cmd, shell=True, capture_output=True, text=True, errors="replace", **kw)
res = {}
sh('git -C /repo worktree add --detach %s HEAD' % wt)
try:
    def demo(tag):
        r = sh('g++ -std=c++17 -O1 -I %s/include %s -o %s/demo_%s 2>&1 | cut -c1-300 | head -20' % (wt, a.demo, wt, tag))
        if not os.path.exists('%s/demo_%s' % (wt, tag)): return ('build-failed', r.stdout[-500:])
        r = sh('%s/demo_%s' % (wt, tag), timeout=600)
        return (r.returncode, (r.stdout + r.stderr)[-300:])
    res['demo_without'] = demo('a')
    r = sh('git -C %s apply %s' % (wt, os.path.abspath(a.patch)))
    res['apply'] = r.returncode, r.stderr[-300:]
    res['demo_with'] = demo('b')
    if not a.skip_tests:
        r = sh('cmake -G Ninja -S %s -B %s/_b -DCMAKE_BUILD_TYPE=Release -DCMAKE_CXX_FLAGS=-Wno-error >/dev/null && cmake --build %s/_b -j16 2>&1 | tail -2 && ctest --test-dir %s/_b -j8 2>&1 | tail -3' % (wt, wt, wt, wt))
        res['tests'] = r.stdout[-300:]
        shutil.rmtree(wt + '/_b', ignore_errors=True)
    res['checks'] = {}
    for c in [x for x in a.checks.split(',') if x]:
        t = time.time()
        env = dict(os.environ); env['VERIF_REPO'] = wt
        r = subprocess.run([os.path.join(ROOT, 'bin', 'check'), c, '--tier', a.tier], capture_output=True, text=True, env=env)
        lines = [l for l in r.stdout.splitlines() if not l.startswith('KNOWN-FINDING')]
        res['checks'][c] = {'exit': r.returncode, 'wall': round(time.time() - t, 1), 'first': [l[:260] for l in lines if l.startswith('  #')][:2], 'last': lines[-1][:200] if lines else ''}
finally:
    if not a.keep:
        sh('git -C /repo worktree remove --force %s' % wt)
print(json.dumps(res, indent=1))
