#!/usr/bin/env python3
"""Regenerates MANIFEST.json from the table below (kept in one place so it stays valid)."""
import json, os, sys
ROOT = os.path.dirname(os.path.dirname(os.path.abspath(__file__)))
sys.path.insert(0, os.path.join(ROOT, 'lib'))

RM = 'runtime monitoring: '
CHECKS = {
 'C01': dict(level='exploration', design='DESIGN.md §6 C01',
   technique=RM + 'differential execution of generated parsers; accept/reject and dumped tables judged offline by a reference canonical-LR(1) oracle (Earley-validated)',
   text='Real parsers generated from hundreds (quick) to thousands (thorough) of grammars are executed on bounded-exhaustive and random inputs; each accept/reject is judged by an independent canonical-LR(1) reference and the dumped table is matched state by state with the reference table. Held on the executions observed, not for all grammars.',
   note='trusts lib/vf/ref_lr1.py (textbook construction, cross-checked with an Earley recogniser) and the installed compilers; char terms only'),
 'C02': dict(level='exploration', design='DESIGN.md §6 C02',
   technique=RM + 'functor call log (unique value ids) recorded at the API boundary, checked offline against post-order evaluation of the reference derivation tree',
   text='Every rule functor, default construction and typed-term functor logs its arguments by unique id; the log of each parse (incl. stacks deeper than 65536) must equal the bottom-up evaluation of the unique derivation tree from the reference driver.',
   note='reference driver as C01; only grammars whose table matched the reference are judged Fixed probes (harness/term_functor_identity.cpp, api_probes.cpp) cover functor-object identity, stateful functors and functor-less initialisation.'),
 'C03': dict(level='exploration', design='DESIGN.md §6 C03',
   technique=RM + 'automaton built by the real pattern front end and dfa_builder read from memory; language equivalence with a reference DFA (Glushkov + subset construction); every difference replayed through the real matcher',
   text='Tens of thousands (quick) to millions (thorough) of generated patterns plus a fixed corpus are built by the real code at run time and, for a sample, during constant evaluation; each automaton is compared exactly (all 256 byte values) with the reference language. Patterns that need determinisation or have nested loops are keyed to recorded findings; everything else is an obligation.',
   note='trusts lib/vf/ref_regex.py (cross-checked against Python re); known findings D8/D8b bound what can be claimed'),
 'C04': dict(level='exploration', design='DESIGN.md §6 C04',
   technique=RM + 'merged lexer automaton read through the hook and compared as a tagged language with a reference union automaton; token events (term, offset, length, line, column) of real parses compared with reference maximal munch',
   text='Fixed and random term sets under an any-token-sequence grammar: which term wins after every string (exact, by product search) and end-to-end tokenisation under all whitespace options and three buffer kinds, including the Unexpected-character failure.',
   note='trusts lib/vf/ref_regex.py; term sets whose union needs determinisation are keyed to the recorded D8 finding unless in the fixed corpus'),
 'C05': dict(level='exploration', design='DESIGN.md §6 C05',
   technique=RM + 'dumped parse tables compared cell by cell with a reference table resolved by the documented rule; logged derivations of operator chains compared with the reference and an independent operator-precedence grouping',
   text='Random expression grammars (precedence incl. negative/equal, associativity, explicit [n], prefix/postfix/juxtaposition), dangling-else shapes and generic S/R grammars: every table cell and the grouping of long operator chains must follow the documented resolution.',
   note='reference as C01; R/R grammars excluded (documented undefined); explicit [0] not generated A fixed probe (harness/api_probes.cpp) covers named rule objects reused in two grammars.'),
 'C06': dict(level='exploration', design='DESIGN.md §6 C06',
   technique=RM + 'clang ASan+UBSan builds (thorough: g++ ASan+bounds, libFuzzer, valgrind), bounds-monitoring user buffer, cvector hook and a watchdog on hostile byte inputs',
   text='Conflict-free grammars of many kinds are run on every byte value, whitespace-only, empty, truncated, mutated, random, very long (10^5..10^6 tokens) and deeply nested inputs through three buffer kinds; the standalone matcher runs on matching and non-matching strings. Any sanitizer report, out-of-range access seen by the monitors, exception, abort or hang is a violation.',
   note='memory safety only on the executions produced; termination as bounded progress under a watchdog; red-zone tools miss intra-object overflow, which the monitors cover for the caller buffer and the cvector stacks'),
 'C07': dict(level='exploration', design='DESIGN.md §6 C07',
   technique=RM + 'the constant evaluators of g++ and clang++ run the real parse path on generated programs (undefined behaviour makes the program ill-formed); results baked into the binary are compared with run-time parses through four buffer kinds and two construction modes',
   text='For each (grammar, input, options) nine results per compiler must agree: constexpr parse, and run-time parses through cstring_buffer/string_buffer/string_view_buffer/user buffer with the parser built at compile time and at run time; rejected inputs included.',
   note='only the installed g++ 12 and clang++ 14; D6 (fixed stacks) is a recorded finding'),
 'C08': dict(level='exploration', design='DESIGN.md §6 C08',
   technique=RM + 'results, surviving values, error reports and verbose recovery steps of real parses compared offline with a reference driver implementing the documented recovery algorithm',
   text='Grammars with the error symbol in many positions; inputs with errors inserted at every position; the observed pops, error shift, discarded terms, kept values and failure cases must equal the documented algorithm step by step.',
   note='reference recovery driver in lib/vf/ref_lr1.py restates the README/C08 algorithm'),
 'C09': dict(level='exploration', design='DESIGN.md §6 C09',
   technique=RM + 'complete error-stream text of every parse compared with the single expected message; bounds-monitoring buffer records how far input was examined',
   text='For conflict-free grammars without error rules the stream must be empty on success and contain exactly the one expected message (position, byte or term name) on failure; the furthest byte examined must not lie beyond the offending term.',
   note='reference as C01 A fixed probe (harness/api_probes.cpp) covers option setters chained on named objects.'),
 'C10': dict(level='exploration', design='DESIGN.md §6 C10',
   technique=RM + 'source points seen by functors and message positions compared with line/column recomputed from byte offsets',
   text='Whitespace-dense inputs, multi-line lexemes, newline/whitespace characters as terms, all four whitespace option sets, positions after recovery: every observed line/column must equal the documented rule applied to the offset.',
   note='reference lexer model in lib/vf/model.py'),
 'C11': dict(level='exploration', design='DESIGN.md §6 C11',
   technique=RM + 'write_diag_str text parsed back and compared with the reference LR(1) analysis, with the raw table (hook dump) and with verbose traces of real parses',
   text='For grammars of all classes the diagnostics must list exactly the reference states/items/actions and conflict lines (kind, rule, preferred side), agree cell by cell with the raw table, and contain every action a real parse executes.',
   note='reference as C01; known finding D12 (reduce/accept conflicts) is keyed by site'),
 'C12': dict(level='exploration', design='DESIGN.md §6 C12',
   technique=RM + 'predicted vs actually used capacities observed on real constructions (analyzer vs builder, caps vs counts in diagnostics, cvector hook); two-stage user-limit instantiations around the measured need, at run time and in both constant evaluators; cstring_buffer parses vs string_buffer parses',
   text='Four monitors: pattern automaton size prediction >= use; default table/lexer capacities suffice for generated parsers; user limits below the measured need are rejected and limits at/above it change nothing; fixed parse stacks for cstring_buffer (recorded finding D6).',
   note='patterns beyond 2048 states not explored at run time; D6 is keyed by site'),
 'C13': dict(level='exploration', design='DESIGN.md §6 C13',
   technique=RM + 'context probes (address, constness, mutation counter, copy/move counters) logged by contextual functors and compared with the reference reduction sequence',
   text='Grammars mixing >= and >>= functors under lvalue, const lvalue, temporary and move-only contexts: the very object, with the supplied constness, must reach exactly the >>= functors in reduction order, uncopied; parse == context_parse when the context is ignored.',
   note='reference as C01 A fixed probe (harness/api_probes.cpp) covers functors returning references into the context.'),
 'C14': dict(level='exploration', design='DESIGN.md §6 C14',
   technique=RM + 'tracked value types with a registry (construction/copy/move/destruction, unique ids); conservation and exactly-once checked after every parse; leak checker in thorough',
   text='On success, failure and recovery paths, with copyable and move-only values: no library-made copy, no value consumed twice or handed over moved-from, every object destroyed exactly once.',
   note='observes only what the tracked types can see (values of trivially copyable types are not tracked)'),
 'C15': dict(level='exploration', design='DESIGN.md §6 C15',
   technique=RM + 'ThreadSanitizer build plus result comparison against isolated results (each computed on a copy of a never-used parser object), byte image of parser objects before the first and after the last call, shuffled single-threaded history, nested parses from inside functors, a second object of the same type with other functor state; overlap of calls measured from timestamps',
   text='4..32 threads share constexpr and run-time-constructed parser objects and mix parse / verbose parse / stream-less parse / write_diag_str on accepted, rejected and recovering inputs with injected yields. No race report, every result equal to the isolated one, objects bit-identical afterwards.',
   note='held on the schedules produced; the number of overlapping call pairs is reported as evidence'),
 'C16': dict(level='exploration', design='DESIGN.md §6 C16',
   technique=RM + 'same case run under verbose on/off x {no stream, std::ostream, user stream}; results/functor logs compared; verbose text parsed into events and checked against the reference action sequence and the functor log',
   text='Outcome must not depend on verbosity or stream type; the verbose trace must be exactly the reference action sequence (states renamed through the table isomorphism), contain the non-verbose messages unchanged and name the right pending term in every Recognized line.',
   note='reference as C01'),
 'C18': dict(level='exploration', design='DESIGN.md §6 C18',
   technique=RM + 'scripted custom lexer that logs every match call; the interleaved log of lexer calls, term functors and rule functors is checked against a trace specification derived from the reference driver',
   text='Exactly one lexer call per needed term at the right position (after the same whitespace skipping) with the right source point, none at end of input or for a pending lookahead; returned index/length honoured exactly (lengths 1..4 and single lexemes of 65535..10^6 bytes); failure answers give Unexpected character.',
   note='lexer answers in range and non-empty The functor identity probe (harness/term_functor_identity.cpp) covers the custom term functor object.'),
 'C19': dict(level='exploration', design='DESIGN.md §6 C19',
   technique=RM + 'complete run-time enumeration of the finite space of helper-functor instantiations with tracked arguments under ASan+UBSan',
   text='All 1026 instantiations (arity x position (pair) x value category) are executed; identity/value of the result, copies and moves of every argument and of the container are checked. The space is finite and enumerated completely.',
   note='arities above 9 are not part of the documented helpers Fixed probes cover named helper objects (val) and the identity of stored functor objects; the enumeration is compiled by clang++ and g++.'),
 'C17': dict(level='exploration', design='DESIGN.md §6 C17',
   technique=RM + 'malformed patterns fed to the real pattern parser/builder/analyzer through a bounds-monitoring buffer; generated programs run through the constant evaluators of g++ and clang++ and constructed at run time',
   text='Strings broken in the ways the property names must be refused by parser, builder and size analyzer without reading outside the pattern; regex_term/regex::expr with such patterns and grammars naming undeclared symbols must not be constant expressions and must throw at run time.',
   note='must-reject classes are only those named by the property; a set ending in a range without an end character is refused or must get the automaton of the set-ends-at-first-bracket reading; other strings give no acceptance verdict'),
}
PENDING = {}
def main():
    props = [json.loads(l) for l in open(os.path.join(ROOT, 'properties.jsonl'))]
    checks = []; na = []
    for p in props:
        pid = p['id']
        if pid in CHECKS:
            c = CHECKS[pid]
            checks.append({
                'property_id': pid,
                'quick_cmd': 'bin/check %s --tier quick' % pid,
                'thorough_cmd': 'bin/check %s --tier thorough' % pid,
                'evidence_file': 'evidence/%s.json' % pid,
                'replay_cmd_template': 'bin/check %s --replay {path}' % pid,
                'engine': 'vf',
                'level_claimed': {'category': c['level'], 'text': c['text'], 'design_ref': c['design']},
                'level_note': c['note'],
                'technique': c['technique'],
            })
        else:
            na.append({'property_id': pid, 'reason': PENDING.get(pid, 'check not built yet in this session (planned in DESIGN.md §6); not claimed until it is silent on the unchanged tree')})
    m = {
        'version': 1,
        'setup_cmd': 'python3 tools/setup.py',
        'hooks': {
            'guard': 'CTPG_VERIF',
            'enable': 'every generated translation unit is compiled with -DCTPG_VERIF -I/repo/include -I/verif/harness (lib/vf/common.py build())',
            'baseline_off_cmd': 'python3 tools/baseline_off.py',
            'source_commits': [l.strip() for l in open(os.path.join(ROOT, 'tools', 'hook_commits.txt')) if l.strip()],
            'add_only': True,
        },
        'engines': [{'name': 'vf', 'path': 'lib/vf', 'serves_properties': sorted(CHECKS),
                     'kind_free_text': 'runtime monitoring: generated C++ programs using the real header, monitor types at the API boundary, sanitizer builds, offline reference-model checkers over recorded event logs'}],
        'checks': checks,
        'not_applicable': na,
        'notes': 'See DESIGN.md. known_findings.txt lists recorded findings and fixed defects.',
    }
    json.dump(m, open(os.path.join(ROOT, 'MANIFEST.json'), 'w'), indent=1)
    print('wrote MANIFEST.json with', len(checks), 'checks,', len(na), 'not claimed')
if __name__ == '__main__':
    main()
