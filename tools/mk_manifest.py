#!/usr/bin/env python3
"""Regenerates MANIFEST.json from the table below (kept in one place so it stays valid)."""
import json, os, sys
ROOT = os.path.dirname(os.path.dirname(os.path.abspath(__file__)))
sys.path.insert(0, os.path.join(ROOT, 'lib'))

CHECKS = {
 'C01': dict(level='exploration', design='DESIGN.md §6 C01',
   technique='runtime monitoring: differential execution of generated parsers against a reference LR(1)/Earley oracle over recorded results',
   text='Real parsers generated from hundreds (quick) to thousands (thorough) of grammars are executed on bounded-exhaustive and random inputs; each accept/reject is judged by an independent canonical-LR(1) reference (itself validated by an Earley recogniser) and the dumped table is matched state by state with the reference table. Held on the executions observed, not for all grammars.',
   note='trusts lib/vf/ref_lr1.py (textbook construction) and the two installed compilers; char terms only'),
}
PENDING = {}
def main():
    props = [json.loads(l) for l in open(os.path.join(ROOT, 'properties.jsonl'))]
    checks = []; na = []
    for p in props:
        pid = p['id']
        if pid in CHECKS:
            c = CHECKS[pid]
            checks.append({
                'property_id': pid,
                'quick_cmd': 'bin/check %s --tier quick' % pid,
                'thorough_cmd': 'bin/check %s --tier thorough' % pid,
                'evidence_file': 'evidence/%s.json' % pid,
                'replay_cmd_template': 'bin/check %s --replay {path}' % pid,
                'engine': 'vf',
                'level_claimed': {'category': c['level'], 'text': c['text'], 'design_ref': c['design']},
                'level_note': c['note'],
                'technique': c['technique'],
            })
        else:
            na.append({'property_id': pid, 'reason': PENDING.get(pid, 'check not built yet in this session (planned in DESIGN.md §6); not claimed until it is silent on the unchanged tree')})
    m = {
        'version': 1,
        'setup_cmd': 'python3 tools/setup.py',
        'hooks': {
            'guard': 'CTPG_VERIF',
            'enable': 'every generated translation unit is compiled with -DCTPG_VERIF -I/repo/include -I/verif/harness (lib/vf/common.py build())',
            'baseline_off_cmd': 'python3 tools/baseline_off.py',
            'source_commits': [l.strip() for l in open(os.path.join(ROOT, 'tools', 'hook_commits.txt')) if l.strip()],
            'add_only': True,
        },
        'engines': [{'name': 'vf', 'path': 'lib/vf', 'serves_properties': sorted(CHECKS),
                     'kind_free_text': 'runtime monitoring: generated C++ programs using the real header, monitor types at the API boundary, sanitizer builds, offline reference-model checkers over recorded event logs'}],
        'checks': checks,
        'not_applicable': na,
        'notes': 'See DESIGN.md. known_findings.txt lists recorded findings and fixed defects.',
    }
    json.dump(m, open(os.path.join(ROOT, 'MANIFEST.json'), 'w'), indent=1)
    print('wrote MANIFEST.json with', len(checks), 'checks,', len(na), 'not claimed')
if __name__ == '__main__':
    main()
