#!/usr/bin/env python3
"""table_soak.py <first_seed> <last_seed> [profile]: C11/C01 table comparison only (no inputs) over many seeds; prints every
difference between write_diag_str and the reference LR(1) analysis that is not a recorded finding. Exploration aid, not a registered check."""
import os, sys, json
ROOT = os.path.dirname(os.path.dirname(os.path.abspath(__file__)))
sys.path.insert(0, os.path.join(ROOT, 'lib'))
a, b = int(sys.argv[1]), int(sys.argv[2]); profile = sys.argv[3] if len(sys.argv) > 3 else 'allclasses'
from vf import common, checks, pipeline
tot = 0; bad = 0
for seed in range(a, b + 1):
    os.environ['VERIF_SEED'] = str(seed)
    gs = checks.gen_grammars('C11', 'quick', 640, profile)
    specs = [{'prop': 'C11', 'grammars': [g.to_json() for g in gs[i:i + 8]], 'seed': seed * 1000 + i, 'flavour': 'clang',
              'cfg': {'modes': [1], 'exh_cap': 0, 'exh_len': 0, 'n_rand': 0, 'n_mut': 0, 'n_ws': 0, 'n_raw': 0, 'long': ()}} for i in range(0, len(gs), 8)]
    outs = common.pmap(pipeline.worker, specs)
    f = common.Findings()
    n = 0
    for o in outs:
        tot += o['counts'].get('grammars', 0)
        for keys, summ, rep in o['viol']:
            if f.match('C11', set(keys)): continue
            n += 1; bad += 1
            if n <= 3: print('SEED', seed, summ[:700]); sys.stdout.flush()
        for w in o['incon'][:1]: print('SEED', seed, 'INCONCLUSIVE', w[:300])
    print('seed', seed, 'grammars so far', tot, 'unlisted differences', bad); sys.stdout.flush()
