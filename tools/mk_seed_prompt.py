#!/usr/bin/env python3
"""mk_seed_prompt.py <PROP> <worktree> [extra text] -> writes <worktree>.prompt (the only thing a seeding sub-agent is given)"""
import json, sys, os
ROOT = os.path.dirname(os.path.dirname(os.path.abspath(__file__)))
props = {json.loads(l)['id']: json.loads(l) for l in open(os.path.join(ROOT, 'properties.jsonl'))}
p = props[sys.argv[1]]; wt = sys.argv[2]; extra = sys.argv[3] if len(sys.argv) > 3 else ''
t = open(os.path.join(ROOT, 'tools', 'seed_prompt.tmpl')).read()
open(wt.rstrip('/') + '.prompt', 'w').write(t.format(wt=wt, pid=p['id'], title=p['title'], statement=p['statement'], quant=p['quantifier']['text'], extra=extra))
