#!/usr/bin/env python3
"""Maintenance tool (never run by a check): prints `finding:` lines for the fixed term sets of C04 whose generated
lexer is wrong on the current tree."""
import os, sys
ROOT = os.path.dirname(os.path.dirname(os.path.abspath(__file__)))
sys.path.insert(0, os.path.join(ROOT, 'lib'))
from vf import lexer_check as lxc, common
fixed = lxc.fixed_termsets()
specs = [{'seed': 20261003 + i, 'termsets': [[t.to_json() for t in ts] for ts in fixed[i * 6:(i + 1) * 6]], 'modes': [0, 7, 8, 9, 3, 4], 'n_inputs': 400, 'corpus': True} for i in range((len(fixed) + 5) // 6)]
seen = {}
for o in common.pmap(lxc.worker, specs):
    for keys, summ, rep in o['viol']:
        if keys[0] not in seen: seen[keys[0]] = (summ, rep)
for k, (summ, rep) in seen.items():
    print('finding: property=C04 key=%s generated lexer for terms(%s) is wrong: %s [D8]' % (k, ', '.join(ascii(t['text']) for t in rep['termset']), summ.split(': ', 1)[1][:160].replace('\n', ' ')))
