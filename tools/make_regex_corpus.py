#!/usr/bin/env python3
"""Maintenance tool (never run by a check): (re)creates corpus/regex_corpus.txt."""
import os, sys, random
ROOT = os.path.dirname(os.path.dirname(os.path.abspath(__file__)))
sys.path.insert(0, os.path.join(ROOT, 'lib'))
from vf import regex_check as rxc, ref_regex as rr
out = []; seen = set()
for ast, t in rr.hand_corpus():
    if t not in seen: seen.add(t); out.append(t)
for ast in rr.small_asts(2):
    t = rr.render(ast)
    if t not in seen: seen.add(t); out.append(t)
rnd = random.Random(20261003)
for ast, t in rxc.gen_patterns(rnd, 600):
    if t not in seen: seen.add(t); out.append(t)
with open(os.path.join(ROOT, 'corpus', 'regex_corpus.txt'), 'w') as f:
    f.write('# seed-independent regex corpus (one pattern per line, hex); created by tools/make_regex_corpus.py\n')
    for t in out:
        rr.parse(t)
        f.write(t.hex() + '\n')
print(len(out), 'patterns')
