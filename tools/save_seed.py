#!/usr/bin/env python3
"""save_seed.py <worktree> <id> <property> <needs> <caught_by> [first_result]  -> seeded/<id>/ from <worktree>/OUT"""
import sys, os, shutil, json
ROOT = os.path.dirname(os.path.dirname(os.path.abspath(__file__)))
wt, sid, prop, needs, caught = sys.argv[1:6]
first = sys.argv[6] if len(sys.argv) > 6 else 'caught'
d = os.path.join(ROOT, 'seeded', sid); os.makedirs(d, exist_ok=True)
for f in ('patch.diff', 'demo.cpp', 'NOTES.md'):
    shutil.copy(os.path.join(wt, 'OUT', f), os.path.join(d, f))
json.dump({'id': sid, 'breaks_property': prop, 'origin': 'independent sub-agent given only the property text and a scratch worktree (round 5)',
           'needs_to_manifest': needs, 'confirmed': 'tools/verify_seed.py: demo exits 0 on /repo HEAD, non-zero with patch; repository test suite 56/56 with patch',
           'first_result': first, 'caught_by': caught,
           'ran': 'python3 tools/verify_seed.py seeded/%s/patch.diff seeded/%s/demo.cpp --checks %s' % (sid, sid, prop)}, open(os.path.join(d, 'meta.json'), 'w'), indent=1)
print('saved', d)
