#!/usr/bin/env python3
"""Maintenance tool (never run by a check): writes corpus/lexer_termsets.jsonl with generated term sets whose union needs determinisation
(or contains nested loops) and whose generated lexer is RIGHT on the current tree; the C04 check treats them as obligations."""
import os, sys, random, json
ROOT = os.path.dirname(os.path.dirname(os.path.abspath(__file__)))
sys.path.insert(0, os.path.join(ROOT, 'lib'))
from vf import lexer_check as lxc, ref_regex as rr, common
want = int(sys.argv[1]) if len(sys.argv) > 1 else 300
rnd = random.Random(20261004)
cands = []
while len(cands) < want * 3:
    ts = lxc.gen_termset(rnd)
    asts = [lxc.term_ast(t) for t in ts]
    ref = rr.TaggedRefDFA(asts)
    if ref.deterministic() and not any(lxc.rxc_nested(a) for a in asts): continue
    if len({(t.kind, t.text) for t in ts}) != len(ts): continue
    cands.append(ts)
def job(c):
    o = lxc.worker({'seed': 20261004, 'termsets': [[t.to_json() for t in ts] for ts in c], 'modes': [0, 7, 8, 9, 3, 4], 'n_inputs': 150, 'corpus': True})
    bad = {json.dumps(v[2].get('termset'), sort_keys=True) for v in o['viol'] if isinstance(v[2], dict) and v[2].get('termset')}
    if o['incon'] or any('crash' in k for v in o['viol'] for k in v[0]): return []
    return [ts for ts in c if json.dumps([t.to_json() for t in ts], sort_keys=True) not in bad]
good = []
for g in common.pmap(job, [cands[i:i + 6] for i in range(0, len(cands), 6)]): good += g
good = good[:want]
with open(os.path.join(ROOT, 'corpus', 'lexer_termsets.jsonl'), 'w') as f:
    for ts in good: f.write(json.dumps([t.to_json() for t in ts]) + '\n')
print('wrote', len(good), 'of', len(cands), 'candidates')
