// libFuzzer target: arbitrary bytes as a pattern (up to the first 0xFF) and as a subject string (the rest): the real pattern
// lexer + grammar + builder + size analyzer, then dfa_match, all through bounds-monitoring buffers.
#include "vf_harness.hpp"
using namespace ctpg;
constexpr size_t N = 1024;
using dfa_t = regex::dfa<N>;
extern "C" int LLVMFuzzerTestOneInput(const uint8_t* data, size_t size)
{
    size_t cut = 0; while (cut < size && data[cut] != 0xFF) ++cut;
    if (cut > 48) return 0;
    std::string pat(reinterpret_cast<const char*>(data), cut);
    std::string subj(reinterpret_cast<const char*>(data) + (cut < size ? cut + 1 : cut), cut < size ? size - cut - 1 : 0);
    utils::no_stream s{};
    long pred = -1;
    {
        regex::dfa_size_analyzer a; vf::checked_buffer b{ std::string_view(pat) };
        try { auto r = regex::regex_parser::regex_parser_object.context_parse(a, parse_options{}.set_skip_whitespace(false), b, s); if (r.has_value()) pred = long(r.value().n); } catch (const std::exception&) {}
        if (b.oob_deref - b.eof_reads > 0 || b.oob_form || b.bad_view) { std::fprintf(stderr, "MONITOR pattern scan: %s\n", b.first_bad.c_str()); std::abort(); }
    }
    if (pred < 0 || pred > 300) return 0;      // merge() recurses once per state: very large patterns only exhaust the (sanitizer-inflated) stack
    static std::unique_ptr<dfa_t> sm;
    sm.reset(new dfa_t());
    regex::dfa_builder<N> bld(*sm);
    vf::checked_buffer b{ std::string_view(pat) };
    bool ok = false;
    try { auto r = regex::regex_parser::regex_parser_object.context_parse(bld, parse_options{}.set_skip_whitespace(false), b, s); if (r.has_value()) { ok = true; bld.mark_end_states(r.value(), 0); } }
    catch (const std::exception&) { return 0; }     // a loud rejection (e.g. a repetition count whose state count overflows the analyzer's 32-bit arithmetic: C12's subject) is not a memory-safety event
    if (!ok) { std::fprintf(stderr, "MONITOR analyzer accepted, builder rejected\n"); std::abort(); }
    if (long(sm->size()) > pred) { std::fprintf(stderr, "MONITOR %zu states built, %ld predicted\n", sm->size(), pred); std::abort(); }
    vf::checked_buffer sb{ std::string_view(subj) };
    auto rt = regex::dfa_match(*sm, match_options{}, source_point{}, sb.begin(), sb.end(), s);
    if (!sb.clean() || (rt.term_idx != uninitialized16 && rt.len > subj.size())) { std::fprintf(stderr, "MONITOR matcher: %s len=%zu\n", sb.first_bad.c_str(), rt.len); std::abort(); }
    return 0;
}
