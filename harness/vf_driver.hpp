// Generic driver for generated grammar translation units: runs one (input, mode) case on a real
// parser object and prints one record with everything the monitors observed.
#pragma once
#include "vf_harness.hpp"

#ifndef VF_MODES
#define VF_MODES 0xffffffffu
#endif
#define VF_ON(k) constexpr ((VF_MODES >> (k)) & 1u)

namespace vf {

struct CaseOut
{
    int res = 0; long root = 0;
    std::string stream;
    long cb[6] = { -1, -1, -1, -1, -1, -1 };
    std::string extra;
};

inline void emit_record(int gi, long idx, int mode, const CaseOut& c)
{
    std::string& o = S.ev;   // reuse
    std::printf("O %d %ld %d %d %ld|%s|%s|%ld %ld %ld|%ld %ld %ld %ld %ld %ld|%s\n", gi, idx, mode, c.res, c.root, o.c_str(), hex(c.stream).c_str(),
                S.objs_alive, S.payload_live, S.copies, c.cb[0], c.cb[1], c.cb[2], c.cb[3], c.cb[4], c.cb[5], c.extra.c_str());
}

template<class Opt>
long root_id(const Opt& r)
{
    if (!r.has_value()) return 0;
    if constexpr (std::is_same_v<std::decay_t<decltype(*r)>, ctpg::no_type>) return 0;
    else return value_id(*r);
}

#ifndef VF_CSTR_MAX
#define VF_CSTR_MAX 20
#endif
// parse through cstring_buffer<N> for a text length chosen at run time (one instantiation per length up to VF_CSTR_MAX)
template<size_t N, class P>
void run_cstr(const P& p, const std::string& input, CaseOut& c)
{
    if (input.size() + 1 == N)
    {
        char arr[N] = {};
        std::memcpy(arr, input.data(), input.size());
        ctpg::buffers::cstring_buffer<N> b(arr);
        S.base = b.get_view(b.begin(), b.end()).data(); S.blen = input.size();
        std::ostringstream ss;
        {
            auto r = p.parse(b, ss);
            c.res = r.has_value(); c.root = root_id(r);
        }
        c.stream = ss.str();
    }
    else if constexpr (N < VF_CSTR_MAX) run_cstr<N + 1>(p, input, c);
    else c.res = -3;
}

// plain grammars (no contextual functors)
template<class P>
void run_plain(const P& p, int gi, long idx, int mode, const std::string& input)
{
    using namespace ctpg; using namespace ctpg::buffers;
    S.reset();
    CaseOut c;
    try
    {
        switch (mode)
        {
        case 0: case 1: case 7: case 8: case 9: case 12: case 13:
        if VF_ON(0)
        {
            string_buffer b{ std::string(input) };
            S.base = b.get_view(b.begin(), b.end()).data(); S.blen = input.size();
            std::ostringstream ss;
            parse_options o;
            if (mode == 1) o.set_verbose();
            if (mode == 7 || mode == 9) o.set_skip_whitespace(false);
            if (mode == 8 || mode == 9) o.set_skip_newline(false);
            // setters chained on a named options object, the verbose switch not last: same options as modes 8 / 9 plus verbose
            if (mode == 12) o.set_verbose().set_skip_newline(false);
            if (mode == 13) o.set_skip_whitespace(false).set_verbose().set_skip_newline(false);
            {
                auto r = p.parse(o, b, ss);
                c.res = r.has_value(); c.root = root_id(r);
            }
            c.stream = ss.str();
            break;
        }
        c.res = -2; break;
        case 14:
        if VF_ON(0)
        {
            // a string_buffer that was moved and copied after its construction, the objects it travelled through overwritten meanwhile
            string_buffer a{ std::string(input) };
            string_buffer b0(std::move(a));
            a = string_buffer(std::string(input.size() + 3, 'z'));
            string_buffer b(b0);
            b0 = string_buffer(std::string(input.size() + 5, 'y'));
            S.base = b.get_view(b.begin(), b.end()).data(); S.blen = input.size();
            std::ostringstream ss;
            {
                auto r = p.parse(b, ss);
                c.res = r.has_value(); c.root = root_id(r);
            }
            c.stream = ss.str();
            break;
        }
        c.res = -2; break;
        case 2:
        if VF_ON(2)
        {
            string_buffer b{ std::string(input) };
            S.base = b.get_view(b.begin(), b.end()).data(); S.blen = input.size();
            {
                auto r = p.parse(b);
                c.res = r.has_value(); c.root = root_id(r);
            }
            break;
        }
        c.res = -2; break;
        case 3:
        if VF_ON(3)
        {
            // exact-size heap copy so that an overread is visible to ASan
            std::unique_ptr<char[]> mem(new char[input.size() ? input.size() : 1]);
            std::memcpy(mem.get(), input.data(), input.size());
            string_view_buffer b{ std::string_view(mem.get(), input.size()) };
            S.base = mem.get(); S.blen = input.size();
            std::ostringstream ss;
            {
                auto r = p.parse(b, ss);
                c.res = r.has_value(); c.root = root_id(r);
            }
            c.stream = ss.str();
            break;
        }
        c.res = -2; break;
        case 4:
        if VF_ON(4)
        {
            checked_buffer b{ std::string_view(input) };
            S.base = b.data(); S.blen = input.size();
            std::ostringstream ss;
            {
                auto r = p.parse(b, ss);
                c.res = r.has_value(); c.root = root_id(r);
            }
            c.stream = ss.str();
            c.cb[0] = b.derefs; c.cb[1] = b.oob_deref; c.cb[2] = b.oob_form; c.cb[3] = b.bad_view; c.cb[4] = b.eof_reads; c.cb[5] = b.max_read;
            c.extra = b.first_bad;
            break;
        }
        c.res = -2; break;
        case 11:
        if VF_ON(11)
        {
            run_cstr<1>(p, input, c);
            break;
        }
        c.res = -2; break;
        case 10:
        if VF_ON(10)
        {
            // verbose trace through the bounds-monitoring buffer (the trace prints lexemes and positions)
            checked_buffer b{ std::string_view(input) };
            S.base = b.data(); S.blen = input.size();
            std::ostringstream ss;
            {
                auto r = p.parse(parse_options{}.set_verbose(), b, ss);
                c.res = r.has_value(); c.root = root_id(r);
            }
            c.stream = ss.str();
            c.cb[0] = b.derefs; c.cb[1] = b.oob_deref; c.cb[2] = b.oob_form; c.cb[3] = b.bad_view; c.cb[4] = b.eof_reads; c.cb[5] = b.max_read;
            c.extra = b.first_bad;
            break;
        }
        c.res = -2; break;
        case 5: case 6:
        if VF_ON(5)
        {
            string_buffer b{ std::string(input) };
            S.base = b.get_view(b.begin(), b.end()).data(); S.blen = input.size();
            ustream us;
            parse_options o;
            if (mode == 5) o.set_verbose();
            {
                auto r = p.parse(o, b, us);
                c.res = r.has_value(); c.root = root_id(r);
            }
            c.stream = us.text;
            c.extra = "pieces=" + std::to_string(us.pieces);
            break;
        }
        c.res = -2; break;
        default:
            c.res = -2;
        }
    }
    catch (const std::exception& e)
    {
        c.res = -1; c.extra = std::string("exception:") + e.what();
    }
    S.base = nullptr;
    emit_record(gi, idx, mode, c);
}

// grammars with contextual functors: mode selects the context category
//  20 lvalue Ctx   21 const lvalue Ctx   22 rvalue temporary Ctx   23 move-only lvalue MoCtx   24 lvalue, verbose
//  25 lvalue (ctx,buf,stream)   26 temporary (ctx,buf,stream)   27 lvalue (ctx,buf)   28 std::move(move-only) (ctx,buf,stream)   29 std::move(Ctx) with options   30 std::move(move-only) (ctx,buf)   31 lvalue of a class with an overloaded operator&   32 long lvalue (scalar context)   33 pointer lvalue
template<class P>
void run_ctx(const P& p, int gi, long idx, int mode, const std::string& input)
{
    using namespace ctpg; using namespace ctpg::buffers;
    S.reset();
    CaseOut c;
    Ctx::g_copies = 0; Ctx::g_moves = 0; MoCtx::g_moves = 0;
    ctx_expected = nullptr; ctx_first_seen = nullptr;
    long counter_after = -1;
    try
    {
        string_buffer b{ std::string(input) };
        S.base = b.get_view(b.begin(), b.end()).data(); S.blen = input.size();
        std::ostringstream ss;
        parse_options o;
        if (mode == 24) o.set_verbose();
        if (mode == 20 || mode == 24)
        {
            Ctx ctx; ctx_expected = &ctx;
            { auto r = p.context_parse(ctx, o, b, ss); c.res = r.has_value(); c.root = root_id(r); }
            counter_after = ctx.counter;
        }
        else if (mode == 21)
        {
            const Ctx ctx; ctx_expected = &ctx;
            { auto r = p.context_parse(ctx, o, b, ss); c.res = r.has_value(); c.root = root_id(r); }
            counter_after = ctx.counter;
        }
        else if (mode == 22)
        {
            { auto r = p.context_parse(Ctx{}, o, b, ss); c.res = r.has_value(); c.root = root_id(r); }
        }
        else if (mode == 23)
        {
            MoCtx ctx; ctx_expected = &ctx;
            { auto r = p.context_parse(ctx, o, b, ss); c.res = r.has_value(); c.root = root_id(r); }
            counter_after = ctx.counter;
        }
        // the overloads without parse_options / without a stream, and named objects handed over as rvalues
        else if (mode == 25)
        {
            Ctx ctx; ctx_expected = &ctx;
            { auto r = p.context_parse(ctx, b, ss); c.res = r.has_value(); c.root = root_id(r); }
            counter_after = ctx.counter;
        }
        else if (mode == 26)
        {
            { auto r = p.context_parse(Ctx{}, b, ss); c.res = r.has_value(); c.root = root_id(r); }
        }
        else if (mode == 27)
        {
            Ctx ctx; ctx_expected = &ctx;
            { auto r = p.context_parse(ctx, b); c.res = r.has_value(); c.root = root_id(r); }
            counter_after = ctx.counter;
        }
        else if (mode == 28)
        {
            MoCtx ctx; ctx_expected = &ctx;
            { auto r = p.context_parse(std::move(ctx), b, ss); c.res = r.has_value(); c.root = root_id(r); }
            counter_after = ctx.counter;
        }
        else if (mode == 29)
        {
            Ctx ctx; ctx_expected = &ctx;
            { auto r = p.context_parse(std::move(ctx), o, b, ss); c.res = r.has_value(); c.root = root_id(r); }
            counter_after = ctx.counter;
        }
        else if (mode == 31)
        {
            static AmpCtx other; AmpCtx::decoy = std::addressof(other); other.counter = 0;
            AmpCtx ctx; ctx_expected = std::addressof(ctx);
            { auto r = p.context_parse(ctx, o, b, ss); c.res = r.has_value(); c.root = root_id(r); }
            counter_after = ctx.counter;
        }
        else if (mode == 32)
        {
            long ctx = 0; ctx_expected = std::addressof(ctx);
            { auto r = p.context_parse(ctx, o, b, ss); c.res = r.has_value(); c.root = root_id(r); }
            counter_after = ctx;
        }
        else if (mode == 33)
        {
            Ctx obj; Ctx* pc = std::addressof(obj); ctx_expected = std::addressof(pc);
            { auto r = p.context_parse(pc, o, b, ss); c.res = r.has_value(); c.root = root_id(r); }
            counter_after = obj.counter;
        }
        else if (mode == 30)
        {
            MoCtx ctx; ctx_expected = &ctx;
            { auto r = p.context_parse(std::move(ctx), b); c.res = r.has_value(); c.root = root_id(r); }
            counter_after = ctx.counter;
        }
        c.stream = ss.str();
    }
    catch (const std::exception& e)
    {
        c.res = -1; c.extra = std::string("exception:") + e.what();
    }
    c.extra += "ctx=" + std::to_string(counter_after) + "," + std::to_string(Ctx::g_copies) + "," + std::to_string(Ctx::g_moves) + "," + std::to_string(MoCtx::g_moves);
    S.base = nullptr;
    emit_record(gi, idx, mode, c);
}

template<class P>
void dump(const P& p, int gi)
{
    std::ostringstream d;
    p.write_diag_str(d);
    std::printf("DIAG %d %s\n", gi, hex(d.str()).c_str());
#ifndef VF_NO_ACCESS
    std::string t;
    ctpg::verif::access::dump_parser(p, t);
    std::printf("DUMP %d %s\n", gi, hex(t).c_str());
    std::string l;
    ctpg::verif::access::dump_dfa(ctpg::verif::access::lexer_sm(p), l);
    std::printf("LEX %d %s\n", gi, hex(l).c_str());
#endif
}

// job file: lines "gi idx mode hexinput" or "D gi"; dispatch(gi, fn) is generated per TU
template<class Dispatch>
int main_loop(int argc, char** argv, Dispatch dispatch)
{
    if (argc < 2) { std::fprintf(stderr, "usage: prog jobfile\n"); return 2; }
    std::ifstream in(argv[1]);
    std::string line;
    // line buffered: a record must not be lost when a later case kills the process (attribution of crashes and hangs)
    static char obuf[1 << 16];
    std::setvbuf(stdout, obuf, _IOLBF, sizeof obuf);
    while (std::getline(in, line))
    {
        if (line.empty()) continue;
        std::istringstream ls(line);
        if (line[0] == 'D')
        {
            std::string d; int gi; ls >> d >> gi;
            dispatch(gi, -1, -1, std::string());
            continue;
        }
        int gi, mode; long idx; std::string hx;
        ls >> gi >> idx >> mode >> hx;
        if (hx == "-") hx.clear();
        dispatch(gi, idx, mode, unhex(hx));
        if (S.cvec_soft)
        {
            std::printf("CVECTOR-SOFT %d %ld %d %s\n", gi, idx, mode, S.cvec_msg.c_str());
            S.cvec_soft = 0; S.cvec_msg.clear();
        }
    }
    std::printf("END\n");
    std::fflush(stdout);
    return 0;
}

} // namespace vf
