// libFuzzer target: a JSON-like parser with regex terms, on arbitrary bytes through an exact-size string_view buffer
// and the bounds-monitoring user buffer.
#include "vf_harness.hpp"
using namespace ctpg; using namespace ctpg::buffers; using namespace ctpg::ftors;
namespace js {
constexpr char number_pattern[] = R"_(\-?(0|[1-9][0-9]*)(\.[0-9]+)?((e|E)(\+|\-)?[0-9]+)?)_";
constexpr char string_pattern[] = R"_("([^\\"\x00-\x1F]|\\[\\"/bfnrt]|\\u[0-9A-Fa-f]{4})*")_";
constexpr regex_term<number_pattern> num("num");
constexpr regex_term<string_pattern> str("str");
constexpr nterm<long> value("value"), object("object"), members("members"), member("member"), array("array"), elements("elements");
struct H { template<class... A> long operator()(A&&...) const { return long(sizeof...(A)); } };
constexpr parser p(value, terms(num, str, "true", "false", "null", '{', '}', '[', ']', ',', ':'),
    nterms(value, object, members, member, array, elements),
    rules(value(num) >= H{}, value(str) >= H{}, value("true") >= H{}, value("false") >= H{}, value("null") >= H{}, value(object) >= H{}, value(array) >= H{},
          object('{', '}') >= H{}, object('{', members, '}') >= H{}, members(member) >= H{}, members(members, ',', member) >= H{}, member(str, ':', value) >= H{},
          array('[', ']') >= H{}, array('[', elements, ']') >= H{}, elements(value) >= H{}, elements(elements, ',', value) >= H{}));
}
extern "C" int LLVMFuzzerTestOneInput(const uint8_t* data, size_t size)
{
    std::unique_ptr<char[]> mem(new char[size ? size : 1]);
    std::memcpy(mem.get(), data, size);
    std::ostringstream s1, s2;
    auto r1 = js::p.parse(string_view_buffer(std::string_view(mem.get(), size)), s1);
    vf::checked_buffer cb{ std::string_view(mem.get(), size) };
    auto r2 = js::p.parse(cb, s2);
    if (!cb.clean() || r1.has_value() != r2.has_value() || s1.str() != s2.str())
    {
        std::fprintf(stderr, "MONITOR: %s clean=%d r1=%d r2=%d\n", cb.first_bad.c_str(), int(cb.clean()), int(r1.has_value()), int(r2.has_value()));
        std::abort();
    }
    return 0;
}
