// libFuzzer target: a parser with a custom lexer (byte-table driven) and error recovery, arbitrary bytes.
#include "vf_harness.hpp"
using namespace ctpg; using namespace ctpg::buffers; using namespace ctpg::ftors;
namespace cl {
struct lexer {
    template<class It, class ES> constexpr recognized_term match(match_options, source_point, It start, It end, ES&) {
        if (start == end) return recognized_term{};
        unsigned char c = (unsigned char)*start;
        if (c >= '0' && c <= '9') { size_t l = 0; while (!(start == end) && (unsigned char)*start >= '0' && (unsigned char)*start <= '9') { ++start; ++l; } return recognized_term(0, l); }
        if (c == ';') return recognized_term(1, 1);
        if (c == '+') return recognized_term(2, 1);
        if (c == '(') return recognized_term(3, 1);
        if (c == ')') return recognized_term(4, 1);
        if (c >= 0x80) return recognized_term(2, (c & 3) + 1 <= 1 ? 1 : 1);
        return recognized_term{};
    } };
constexpr custom_term num("num", [](std::string_view sv) { return long(sv.size()); });
constexpr custom_term semi(";", create<no_type>{}), plus("+", create<no_type>{}), lp("(", create<no_type>{}), rp(")", create<no_type>{});
constexpr nterm<long> list("list"), expr("expr");
struct H { template<class... A> long operator()(A&&...) const { return long(sizeof...(A)); } };
constexpr parser p(list, terms(num, semi, plus, lp, rp), nterms(list, expr),
    rules(list() >= H{}, list(list, expr, semi) >= H{}, list(list, error, semi) >= H{}, expr(num) >= H{}, expr(expr, plus, num) >= H{}, expr(lp, expr, rp) >= H{}, expr(lp, error, rp) >= H{}),
    use_lexer<lexer>{});
}
extern "C" int LLVMFuzzerTestOneInput(const uint8_t* data, size_t size)
{
    std::unique_ptr<char[]> mem(new char[size ? size : 1]);
    std::memcpy(mem.get(), data, size);
    std::ostringstream s1, s2;
    auto r1 = cl::p.parse(string_view_buffer(std::string_view(mem.get(), size)), s1);
    vf::checked_buffer cb{ std::string_view(mem.get(), size) };
    auto r2 = cl::p.parse(parse_options{}.set_verbose(), cb, s2);
    if (!cb.clean() || r1.has_value() != r2.has_value()) { std::fprintf(stderr, "MONITOR: %s\n", cb.first_bad.c_str()); std::abort(); }
    return 0;
}
