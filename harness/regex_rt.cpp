// Run-time driver for the library's real pattern lexer + pattern grammar + dfa_builder +
// dfa_size_analyzer + dfa_match on patterns and strings chosen at run time (public names only).
//   P <id> <hexpattern>              -> "R id ok pred actual derefs oob_deref oob_form bad_view eof_reads" + automaton dump + "E id"
//   M <id> <hexpattern> <hexstring>  -> "A id ok term_idx len full cb..." (matcher answer observed through a bounds-monitoring buffer)
#include "vf_harness.hpp"
#ifndef VF_DFA_N
#define VF_DFA_N 2048
#endif
using namespace ctpg;
constexpr size_t N = VF_DFA_N;
using dfa_t = regex::dfa<N>;

static std::unique_ptr<dfa_t> sm;

struct built { bool ok = false; bool threw = false; std::string what; utils::slice sl{0, 0}; long cb[5] = {0, 0, 0, 0, 0}; };

static built build(const std::string& pat)
{
    built r;
    sm.reset(new dfa_t());
    regex::dfa_builder<N> b(*sm);
    vf::checked_buffer buf{ std::string_view(pat) };
    utils::no_stream s{};
    try
    {
        auto res = regex::regex_parser::regex_parser_object.context_parse(b, parse_options{}.set_skip_whitespace(false), buf, s);
        if (res.has_value())
        {
            r.ok = true; r.sl = res.value();
            b.mark_end_states(res.value(), 0);
        }
    }
    catch (const std::exception& e) { r.threw = true; r.what = e.what(); }
    r.cb[0] = buf.derefs; r.cb[1] = buf.oob_deref - buf.eof_reads; r.cb[2] = buf.oob_form; r.cb[3] = buf.bad_view; r.cb[4] = buf.eof_reads;
    return r;
}

static long analyze(const std::string& pat, bool& threw)
{
    regex::dfa_size_analyzer a;
    vf::checked_buffer buf{ std::string_view(pat) };
    utils::no_stream s{};
    threw = false;
    try
    {
        auto res = regex::regex_parser::regex_parser_object.context_parse(a, parse_options{}.set_skip_whitespace(false), buf, s);
        if (!res.has_value()) return -1;
        return long(res.value().n);
    }
    catch (const std::exception&) { threw = true; return -2; }
}

int main(int argc, char** argv)
{
    if (argc < 2) return 2;
    std::ifstream in(argv[1]);
    std::string line;
    static char obuf[1 << 16];
    std::setvbuf(stdout, obuf, _IOLBF, sizeof obuf);
    while (std::getline(in, line))
    {
        std::istringstream ls(line);
        std::string cmd, id, hp, hs;
        ls >> cmd >> id >> hp >> hs;
        if (hp == "-") hp.clear();
        if (hs == "-") hs.clear();
        std::string pat = vf::unhex(hp);
        if (cmd == "P")
        {
            bool athrew = false;
            long pred = analyze(pat, athrew);
            if (pred > long(N))
            {
                std::printf("R %s toolarge %ld 0 0 0 0 0 0\nE %s\n", id.c_str(), pred, id.c_str());
                continue;
            }
            built b = build(pat);
            std::printf("R %s %s %ld %zu %ld %ld %ld %ld %ld %s\n", id.c_str(), b.threw ? "threw" : (b.ok ? "ok" : "rejected"), pred, sm->size(),
                        b.cb[0], b.cb[1], b.cb[2], b.cb[3], b.cb[4], athrew ? "analyzer-threw" : "-");
            if (b.ok)
            {
                std::string d;
                ctpg::verif::access::dump_dfa(*sm, d);
                std::fputs(d.c_str(), stdout);
            }
            std::printf("E %s\n", id.c_str());
        }
        else if (cmd == "M")
        {
            built b = build(pat);
            if (!b.ok) { std::printf("A %s rejected\n", id.c_str()); continue; }
            std::string str = vf::unhex(hs);
            vf::checked_buffer buf{ std::string_view(str) };
            utils::no_stream s{};
            auto rt = regex::dfa_match(*sm, match_options{}, source_point{}, buf.begin(), buf.end(), s);
            bool full = rt.term_idx == 0 && rt.len == str.size();
            std::printf("A %s ok %d %ld %d %ld %ld %ld %ld %ld\n", id.c_str(), rt.term_idx == uninitialized16 ? -1 : int(rt.term_idx),
                        rt.term_idx == uninitialized16 ? -1L : long(rt.len), int(full), buf.derefs, buf.oob_deref, buf.oob_form, buf.bad_view, buf.max_read);
        }
    }
    std::printf("END\n");
    return 0;
}
