// Monitors used by the generated translation units. Everything here observes the library at its
// documented API boundary (buffers, functors, value types, contexts, streams, custom lexers); the
// only non-public access is ctpg::verif::access (guarded friend hook) for table/automaton dumps.
#pragma once
#include <ctpg/ctpg.hpp>
#include <string>
#include <string_view>
#include <vector>
#include <sstream>
#include <iostream>
#include <fstream>
#include <cstdio>
#include <cstdlib>
#include <cstring>
#include <memory>
#include <iterator>
#include <type_traits>

namespace vf {

// ------------------------------------------------------------------------------------------------
// global monitor state (single-threaded harnesses; the C15 harness has its own thread-local state)
struct State
{
    std::string ev;                 // event log of the current parse
    const char* base = nullptr;     // caller's buffer, for lexeme offsets
    size_t blen = 0;
    long next_id = 1;
    long objs_alive = 0;            // tracked objects constructed minus destroyed
    long copies = 0;                // copy constructions / copy assignments of tracked values
    long moves = 0;
    long payload_live = 0;          // tracked payloads (ids) currently owned by some object
    long cvec_hard = 0, cvec_soft = 0;
    std::string cvec_msg;
    long epoch = 0;                 // incremented for every parse call made by the driver
    void reset()
    {
        ev.clear(); next_id = 1; copies = 0; moves = 0; ++epoch;
    }
    long fresh() { return next_id++; }
};
inline State S;

inline void put(long v) { char b[24]; std::snprintf(b, sizeof b, "%ld", v); S.ev += b; }

// ------------------------------------------------------------------------------------------------
// tracked value types
template<int Tag>
struct TV
{
    long id;     // > 0 owns payload id; < 0 moved-from (remembers -id); 0 never
    TV() : id(S.fresh()) { ++S.objs_alive; ++S.payload_live; S.ev += "D"; put(Tag); S.ev += "()="; put(id); S.ev += ";"; }
    struct raw {};
    TV(raw, long i) : id(i) { ++S.objs_alive; ++S.payload_live; }
    TV(const TV& o) : id(o.id) { ++S.objs_alive; ++S.copies; if (id > 0) ++S.payload_live; S.ev += "C"; put(id); S.ev += ";"; }
    TV(TV&& o) noexcept(Tag != 2) : id(o.id) { ++S.objs_alive; ++S.moves; if (o.id > 0) o.id = -o.id; }
    TV& operator=(const TV& o) { if (this != &o) { drop(); id = o.id; ++S.copies; if (id > 0) ++S.payload_live; S.ev += "C"; put(id); S.ev += ";"; } return *this; }
    TV& operator=(TV&& o) noexcept(Tag != 2) { if (this != &o) { drop(); id = o.id; ++S.moves; if (o.id > 0) o.id = -o.id; } return *this; }
    ~TV() { drop(); --S.objs_alive; }
    // construction from right-side values by a rule without functor (default functor)
    template<class A, class... B, class = std::enable_if_t<!(sizeof...(B) == 0 && std::is_same_v<std::decay_t<A>, TV>)>>
    explicit TV(A&& a, B&&... b);
private:
    void drop() { if (id > 0) --S.payload_live; }
};
using V = TV<0>;
using W = TV<1>;
using XT = TV<2>;    // copyable, move constructor not noexcept (a hand-written class without the annotation)

// move-only tracked value
struct MV
{
    long id;
    MV() : id(S.fresh()) { ++S.objs_alive; ++S.payload_live; S.ev += "D9()="; put(id); S.ev += ";"; }
    struct raw {};
    MV(raw, long i) : id(i) { ++S.objs_alive; ++S.payload_live; }
    MV(const MV&) = delete;
    MV& operator=(const MV&) = delete;
    MV(MV&& o) noexcept : id(o.id) { ++S.objs_alive; ++S.moves; if (o.id > 0) o.id = -o.id; }
    MV& operator=(MV&& o) noexcept { if (this != &o) { if (id > 0) --S.payload_live; id = o.id; ++S.moves; if (o.id > 0) o.id = -o.id; } return *this; }
    ~MV() { if (id > 0) --S.payload_live; --S.objs_alive; }
    template<class A, class... B, class = std::enable_if_t<!(sizeof...(B) == 0 && std::is_same_v<std::decay_t<A>, MV>)>>
    explicit MV(A&& a, B&&... b);
};

// tracked container of V values, for the list helpers push_back<C,A> / emplace_back<C,A> / create<T> used as rule functors
struct Bag
{
    std::vector<V> items;
    long id;
    Bag() : id(S.fresh()) { ++S.objs_alive; }
    struct raw {};
    Bag(raw, long i) : id(i) { ++S.objs_alive; }
    Bag(const Bag& o) : items(o.items), id(o.id) { ++S.objs_alive; ++S.copies; S.ev += "K"; put(id); S.ev += ";"; }
    Bag(Bag&& o) noexcept : items(std::move(o.items)), id(o.id) { ++S.objs_alive; ++S.moves; if (o.id > 0) o.id = -o.id; }
    Bag& operator=(const Bag& o) { if (this != &o) { items = o.items; id = o.id; ++S.copies; S.ev += "K"; put(id); S.ev += ";"; } return *this; }
    Bag& operator=(Bag&& o) noexcept { if (this != &o) { items = std::move(o.items); id = o.id; ++S.moves; if (o.id > 0) o.id = -o.id; } return *this; }
    ~Bag() { --S.objs_alive; }
    void push_back(const V& v) { items.push_back(v); }
    void emplace_back(V&& v) { items.emplace_back(std::move(v)); }
};

// trivially destructible tracked value: eligible for the fixed-size stacks the library uses with cstring_buffer; copies and moves
// are still observable (no destructor, so no liveness accounting)
struct TD
{
    long id;
    TD() : id(0) {}
    struct raw {};
    TD(raw, long i) : id(i) {}
    TD(const TD& o) : id(o.id) { ++S.copies; S.ev += "C"; put(id); S.ev += ";"; }
    TD(TD&& o) noexcept : id(o.id) { ++S.moves; if (o.id > 0) o.id = -o.id; }
    TD& operator=(const TD& o) { if (this != &o) { id = o.id; ++S.copies; S.ev += "C"; put(id); S.ev += ";"; } return *this; }
    TD& operator=(TD&& o) noexcept { if (this != &o) { id = o.id; ++S.moves; if (o.id > 0) o.id = -o.id; } return *this; }
    ~TD() = default;
};

template<class T> struct is_tracked : std::false_type {};
template<> struct is_tracked<TD> : std::true_type {};
template<int Tag> struct is_tracked<TV<Tag>> : std::true_type {};
template<> struct is_tracked<MV> : std::true_type {};

// describe one functor argument in the event log; tracked values are consumed (moved out), which is
// what an owning functor does, so a value handed over twice shows up as moved-from the second time
template<class A>
void describe(A&& a)
{
    using T = std::decay_t<A>;
    if constexpr (is_tracked<T>::value)
    {
        S.ev += "v"; put(a.id);
        if constexpr (!std::is_const_v<std::remove_reference_t<A>> && std::is_rvalue_reference_v<A&&>)
        {
            T taken(std::move(a));
            (void)taken;
        }
        else
            S.ev += "&";     // not handed over as a movable value
    }
    else if constexpr (std::is_same_v<T, Bag>)
    {
        S.ev += "b"; put(a.id); S.ev += "[";
        for (size_t i = 0; i < a.items.size(); ++i) { if (i) S.ev += "."; put(a.items[i].id); }
        S.ev += "]";
        if constexpr (!std::is_const_v<std::remove_reference_t<A>> && std::is_rvalue_reference_v<A&&>) { Bag taken(std::move(a)); (void)taken; }
        else S.ev += "&";
    }
    else if constexpr (std::is_same_v<T, ctpg::term_value<char>>)
    {
        S.ev += "c"; put(a.get_line()); S.ev += ":"; put(a.get_column()); S.ev += ":"; put((unsigned char)a.get_value());
    }
    else if constexpr (std::is_same_v<T, ctpg::term_value<std::string_view>>)
    {
        const std::string_view& sv = a.get_value();
        S.ev += "s"; put(a.get_line()); S.ev += ":"; put(a.get_column()); S.ev += ":";
        put(S.base ? long(sv.data() - S.base) : -1); S.ev += ":"; put(long(sv.size()));
    }
    else if constexpr (std::is_same_v<T, ctpg::no_type>)
    {
        S.ev += "e";
    }
    else if constexpr (std::is_same_v<T, ctpg::term_value<ctpg::no_type>>)
    {
        S.ev += "n"; put(a.get_line()); S.ev += ":"; put(a.get_column());
    }
    else if constexpr (std::is_integral_v<T>)
    {
        S.ev += "i"; put(long(a));
    }
    else
    {
        // term_value<tracked> of a typed term
        S.ev += "T"; put(a.get_line()); S.ev += ":"; put(a.get_column()); S.ev += ":v"; put(a.get_value().id);
    }
    S.ev += ",";
}

template<int Tag>
template<class A, class... B, class>
TV<Tag>::TV(A&& a, B&&... b) : id(S.fresh())
{
    ++S.objs_alive; ++S.payload_live;
    S.ev += "D"; put(Tag); S.ev += "(";
    describe(std::forward<A>(a)); (describe(std::forward<B>(b)), ...);
    S.ev += ")="; put(id); S.ev += ";";
}
template<class A, class... B, class>
MV::MV(A&& a, B&&... b) : id(S.fresh())
{
    ++S.objs_alive; ++S.payload_live;
    S.ev += "D9(";
    describe(std::forward<A>(a)); (describe(std::forward<B>(b)), ...);
    S.ev += ")="; put(id); S.ev += ";";
}

template<class T> T make_value()
{
    if constexpr (is_tracked<T>::value || std::is_same_v<T, Bag>) return T(typename T::raw{}, S.fresh());
    else return T(S.fresh());
}
template<class T> long value_id(const T& v)
{
    if constexpr (is_tracked<T>::value || std::is_same_v<T, Bag>) return v.id; else return long(v);
}

// rule functor: logs "r<rule>(args)=<id>;"
template<int Rule, class T = V>
struct R
{
    template<class... A>
    T operator()(A&&... a) const
    {
        S.ev += "r"; put(Rule); S.ev += "(";
        (describe(std::forward<A>(a)), ...);
        T v = make_value<T>();
        S.ev += ")="; put(value_id(v)); S.ev += ";";
        return v;
    }
};

// rule functor with state of its own (an id allocator, a node counter): logs "s<rule>:<n-th call of this functor object>;" before the usual record;
// the object stored in the parser is the one that has to be called, every time
template<int Rule, class T = V>
struct RS
{
    mutable long calls = 0;
    template<class... A>
    T operator()(A&&... a) const
    {
        S.ev += "s"; put(Rule); S.ev += ":"; put(++calls); S.ev += ";";
        S.ev += "r"; put(Rule); S.ev += "(";
        (describe(std::forward<A>(a)), ...);
        T v = make_value<T>();
        S.ev += ")="; put(value_id(v)); S.ev += ";";
        return v;
    }
};

// rule functor returning a non-const lvalue reference to an object that outlives the call (an entry of a table the functor owns): the
// library has to copy from it; logs "r<rule>(args)=<id of the persistent object>;" (a negative id: somebody moved from the table entry)
template<int Rule, class T = V>
struct RL
{
    static T& slot() { static T* s = new T(typename T::raw{}, 900000L + Rule); return *s; }
    template<class... A>
    T& operator()(A&&... a) const
    {
        S.ev += "r"; put(Rule); S.ev += "(";
        (describe(std::forward<A>(a)), ...);
        T& v = slot();
        S.ev += ")="; put(v.id); S.ev += ";";
        return v;
    }
};

// contexts
struct Ctx
{
    long counter = 0;
    long copies = 0, moves = 0;
    int tagv = 7;
    Ctx() = default;
    Ctx(const Ctx& o) : counter(o.counter), copies(o.copies + 1), moves(o.moves), tagv(o.tagv) { ++g_copies; }
    Ctx(Ctx&& o) noexcept : counter(o.counter), copies(o.copies), moves(o.moves + 1), tagv(o.tagv) { ++g_moves; }
    Ctx& operator=(const Ctx&) = delete;
    static inline long g_copies = 0, g_moves = 0;
};
struct MoCtx
{
    long counter = 0;
    MoCtx() = default;
    MoCtx(const MoCtx&) = delete;
    MoCtx(MoCtx&& o) noexcept : counter(o.counter) { ++g_moves; }
    static inline long g_moves = 0;
};
// a context class with an overloaded unary operator& (handle / proxy types): "&ctx" is not its address
struct AmpCtx : Ctx
{
    static inline AmpCtx* decoy = nullptr;
    AmpCtx* operator&() { return decoy; }
    const AmpCtx* operator&() const { return decoy; }
};
inline const void* ctx_expected = nullptr;   // address of the caller's object (lvalue categories)
inline const void* ctx_first_seen = nullptr;

// contextual rule functor: logs "x<rule>[<same-address?><c|m>#<counter before>](args)=<id>;"
template<int Rule, class T = V>
struct X
{
    template<class C, class... A>
    T operator()(C&& ctx, A&&... a) const
    {
        using CT = std::remove_reference_t<C>;
        S.ev += "x"; put(Rule); S.ev += "[";
        const void* addr = static_cast<const void*>(std::addressof(ctx));
        if (!ctx_first_seen) ctx_first_seen = addr;
        S.ev += (ctx_expected ? (addr == ctx_expected ? "=" : "!") : (addr == ctx_first_seen ? "~" : "!"));
        S.ev += std::is_const_v<CT> ? "c" : "m";
        S.ev += std::is_lvalue_reference_v<C> ? "L" : "R";     // value category the context arrives with
        // scalar contexts (a counter passed as long&, a pointer to the real context) are contexts too
        if constexpr (std::is_arithmetic_v<std::remove_cv_t<CT>>) { S.ev += "#"; put(long(ctx)); if constexpr (!std::is_const_v<CT>) ++ctx; }
        else if constexpr (std::is_pointer_v<std::remove_cv_t<CT>>) { S.ev += "#"; put(ctx->counter); ++ctx->counter; }
        else {
        S.ev += "#"; put(ctx.counter);
        if constexpr (!std::is_const_v<CT>) ++ctx.counter;
        }
        S.ev += "](";
        (describe(std::forward<A>(a)), ...);
        T v = make_value<T>();
        S.ev += ")="; put(value_id(v)); S.ev += ";";
        return v;
    }
};

// contextual functor on a nonterminal without a value
template<int Rule>
struct XN
{
    template<class C, class... A>
    ctpg::no_type operator()(C&& ctx, A&&... a) const
    {
        using CT = std::remove_reference_t<C>;
        S.ev += "x"; put(Rule); S.ev += "[";
        const void* addr = static_cast<const void*>(std::addressof(ctx));
        if (!ctx_first_seen) ctx_first_seen = addr;
        S.ev += (ctx_expected ? (addr == ctx_expected ? "=" : "!") : (addr == ctx_first_seen ? "~" : "!"));
        S.ev += std::is_const_v<CT> ? "c" : "m";
        S.ev += std::is_lvalue_reference_v<C> ? "L" : "R";     // value category the context arrives with
        // scalar contexts (a counter passed as long&, a pointer to the real context) are contexts too
        if constexpr (std::is_arithmetic_v<std::remove_cv_t<CT>>) { S.ev += "#"; put(long(ctx)); if constexpr (!std::is_const_v<CT>) ++ctx; }
        else if constexpr (std::is_pointer_v<std::remove_cv_t<CT>>) { S.ev += "#"; put(ctx->counter); ++ctx->counter; }
        else {
        S.ev += "#"; put(ctx.counter);
        if constexpr (!std::is_const_v<CT>) ++ctx.counter;
        }
        S.ev += "](";
        (describe(std::forward<A>(a)), ...);
        S.ev += ")=N;";
        return ctpg::no_type{};
    }
};

// typed-term functor: logs "t<term>:<offset>:<len>=<id>;"
template<int Term, class T = V>
struct TT
{
    T operator()(std::string_view sv) const
    {
        S.ev += "t"; put(Term); S.ev += ":"; put(S.base ? long(sv.data() - S.base) : -1); S.ev += ":"; put(long(sv.size()));
        T v = make_value<T>();
        S.ev += "="; put(value_id(v)); S.ev += ";";
        return v;
    }
};

// typed-term functor with the term number as *state*: all terms using it have the same C++ type and differ only in the stored object
template<class T = V>
struct TTS
{
    int term;
    constexpr explicit TTS(int t) : term(t) {}
    T operator()(std::string_view sv) const
    {
        S.ev += "t"; put(term); S.ev += ":"; put(S.base ? long(sv.data() - S.base) : -1); S.ev += ":"; put(long(sv.size()));
        T v = make_value<T>();
        S.ev += "="; put(value_id(v)); S.ev += ";";
        return v;
    }
};

// rule functors for nonterminals without a value (nterm<no_type>): log the call, return no_type
template<int Rule>
struct RN
{
    template<class... A>
    ctpg::no_type operator()(A&&... a) const
    {
        S.ev += "r"; put(Rule); S.ev += "(";
        (describe(std::forward<A>(a)), ...);
        S.ev += ")=N;";
        return ctpg::no_type{};
    }
};

// ------------------------------------------------------------------------------------------------
// user stream type (anything with operator<< is accepted by the library)
struct ustream
{
    std::string text;
    long pieces = 0;
    template<class T>
    ustream& operator<<(const T& v)
    {
        std::ostringstream o; o << v; text += o.str(); ++pieces; return *this;
    }
};

// ------------------------------------------------------------------------------------------------
// bounds-monitoring user buffer: iterators carry (buffer, position); exact-size heap storage
struct checked_buffer
{
    std::unique_ptr<char[]> mem;
    long n;
    mutable long derefs = 0, oob_deref = 0, oob_form = 0, bad_view = 0, max_read = -1, eof_reads = 0;
    mutable std::string first_bad;

    explicit checked_buffer(std::string_view s) : mem(new char[s.size() ? s.size() : 1]), n(long(s.size()))
    {
        if (n) std::memcpy(mem.get(), s.data(), s.size());
    }
    const char* data() const { return mem.get(); }

    struct iterator
    {
        const checked_buffer* b;
        long pos;
        char operator*() const
        {
            ++b->derefs;
            if (pos < 0 || pos >= b->n)
            {
                if (pos == b->n) ++b->eof_reads;
                ++b->oob_deref;
                if (b->first_bad.empty()) b->first_bad = "deref at " + std::to_string(pos) + " of " + std::to_string(b->n);
                return 0;
            }
            if (pos > b->max_read) b->max_read = pos;
            return b->mem[pos];
        }
        void check() const
        {
            if (pos < 0 || pos > b->n)
            {
                ++b->oob_form;
                if (b->first_bad.empty()) b->first_bad = "iterator formed at " + std::to_string(pos) + " of " + std::to_string(b->n);
            }
        }
        iterator& operator++() { ++pos; check(); return *this; }
        iterator operator++(int) { iterator i(*this); ++pos; check(); return i; }
        iterator& operator+=(size_t k) { pos += long(k); check(); return *this; }
        iterator operator+(size_t k) const { iterator i(*this); i.pos += long(k); i.check(); return i; }
        bool operator==(const iterator& o) const { return pos == o.pos; }
        bool operator!=(const iterator& o) const { return pos != o.pos; }
    };
    iterator begin() const { return iterator{ this, 0 }; }
    iterator end() const { return iterator{ this, n }; }
    std::string_view get_view(iterator s, iterator e) const
    {
        if (s.pos < 0 || e.pos > n || s.pos > e.pos)
        {
            ++bad_view;
            if (first_bad.empty()) first_bad = "view [" + std::to_string(s.pos) + "," + std::to_string(e.pos) + ") of " + std::to_string(n);
            return std::string_view();
        }
        return std::string_view(mem.get() + s.pos, size_t(e.pos - s.pos));
    }
    bool clean() const { return oob_deref == 0 && oob_form == 0 && bad_view == 0; }
};

// ------------------------------------------------------------------------------------------------
// scripted custom lexer: answers (term, length) as a function of the first byte, logs every call
struct lexspec { int term[256]; int len[256]; };
inline const lexspec* cur_lexspec = nullptr;

template<class It> long iter_offset(const It& it)
{
    if constexpr (std::is_same_v<It, checked_buffer::iterator>) return it.pos;
    else if constexpr (std::is_pointer_v<It>) return S.base ? long(it - S.base) : -1;
    else return S.base ? long(&*it - S.base) : -1;
}

struct ScriptLexer
{
    // a custom lexer may keep working state in members (match is not const): a lexer object that survives from one parse call to
    // another would carry that state over, which the monitor makes visible
    long epoch_seen = 0;
    template<class It, class ES>
    ctpg::recognized_term match(ctpg::match_options, ctpg::source_point sp, It start, It end, ES&)
    {
        if (epoch_seen && epoch_seen != S.epoch) S.ev += "LEXER-OBJECT-REUSED-ACROSS-PARSE-CALLS;";
        epoch_seen = S.epoch;
        S.ev += "L";
        if (start == end) { S.ev += "@end->fail;"; return ctpg::recognized_term{}; }
        long off = iter_offset(start);
        // distance to the end in constant time (walking it made a parse of n tokens cost n*n/2 steps: a 10^6-token input did not finish)
        long rem = 0;
        if constexpr (std::is_same_v<It, checked_buffer::iterator>)
        {
            rem = end.pos - start.pos;
            if (rem < 0) { ++start.b->oob_form; if (start.b->first_bad.empty()) start.b->first_bad = "lexer called with start " + std::to_string(start.pos) + " beyond end " + std::to_string(end.pos); S.ev += "@beyond-end->fail;"; return ctpg::recognized_term{}; }
        }
        else if constexpr (std::is_base_of_v<std::random_access_iterator_tag, typename std::iterator_traits<It>::iterator_category>)
        {
            rem = long(end - start);
            if (rem < 0) { std::fprintf(stderr, "MONITOR: custom lexer called with start beyond end\n"); std::abort(); }
        }
        else { It i = start; while (!(i == end)) { ++i; ++rem; } }
        unsigned char c = (unsigned char)*start;
        put(off); S.ev += ":"; put(rem); S.ev += ":"; put(sp.line); S.ev += ":"; put(sp.column); S.ev += "->";
        int t = cur_lexspec ? cur_lexspec->term[c] : -1;
        if (t < 0) { S.ev += "fail;"; return ctpg::recognized_term{}; }
        long l = cur_lexspec->len[c]; if (l > rem) l = rem;
        put(t); S.ev += ":"; put(l); S.ev += ";";
        return ctpg::recognized_term(ctpg::size16_t(t), size_t(l));
    }
};

// ------------------------------------------------------------------------------------------------
inline std::string hex(std::string_view s)
{
    static const char* d = "0123456789abcdef";
    std::string o; o.reserve(s.size() * 2);
    for (unsigned char c : s) { o += d[c >> 4]; o += d[c & 15]; }
    return o;
}
inline std::string unhex(std::string_view s)
{
    auto v = [](char c) { return c <= '9' ? c - '0' : (c | 32) - 'a' + 10; };
    std::string o; o.reserve(s.size() / 2);
    for (size_t i = 0; i + 1 < s.size(); i += 2) o += char(v(s[i]) * 16 + v(s[i + 1]));
    return o;
}

} // namespace vf

// ------------------------------------------------------------------------------------------------
// handler of the guarded cvector hook: called only on an out-of-range access
namespace ctpg { namespace verif {
inline void cvector_violation(const char* what, std::size_t idx, std::size_t size, std::size_t cap)
{
    bool hard = idx >= cap;
    if (hard) ++vf::S.cvec_hard; else ++vf::S.cvec_soft;
    if (vf::S.cvec_msg.empty())
        vf::S.cvec_msg = std::string(what) + " idx=" + std::to_string(idx) + " size=" + std::to_string(size) + " cap=" + std::to_string(cap);
    if (hard)
    {
        std::printf("\nCVECTOR-VIOLATION %s idx=%zu size=%zu cap=%zu\n", what, idx, size, cap);
        std::fflush(stdout);
        std::_Exit(97);   // continuing would corrupt memory
    }
}

#ifndef VF_NO_ACCESS
// read-only access through the guarded friend hook
struct access
{
    template<class P>
    static void dump_parser(const P& p, std::string& out)
    {
        auto num = [&out](long v) { out += std::to_string(v); out += ' '; };
        out += "K "; num(P::term_count); num(P::nterm_count); num(P::rule_count); num(P::situation_size);
        num(p.state_count); num(P::state_count_cap); num(P::max_sit_count_per_state_cap); num(P::max_rule_element_count);
        num(P::empty_rules_count); num(P::lexer_dfa_size); num(long(sizeof(P))); out += "\n";
        for (size_t i = 0; i < P::rule_count; ++i)
        {
            out += "RI "; num(long(i)); num(p.gi.rule_infos[i].l_idx); num(p.gi.rule_infos[i].r_idx); num(p.gi.rule_infos[i].r_elements); out += "\n";
        }
        for (size_t st = 0; st < p.state_count && st < P::state_count_cap; ++st)
        {
            out += "I "; num(long(st));
            for (size_t j = 0; j < P::situation_address_space_size; ++j)
                if (p.states[st].test(j))
                {
                    auto info = P::make_situation_info(ctpg::size32_t(j));
                    num(p.gi.rule_infos[info.rule_info_idx].r_idx); num(info.after); num(info.t); out += "/ ";
                }
            out += "\n";
            for (size_t sym = 0; sym < P::symbol_count; ++sym)
            {
                const auto& e = p.parse_table[st][sym];
                if (int(e.kind) == 0 && !e.has_sr_conflict) continue;
                out += "T "; num(long(st)); num(long(sym)); num(int(e.kind)); num(e.arg); num(e.has_sr_conflict); out += "\n";
            }
        }
    }
    template<class P> static const auto& lexer_sm(const P& p) { return p.lexer_sm; }
    template<class P> static constexpr size_t lexer_dfa_size() { return P::lexer_dfa_size; }
    template<class E> static const auto& expr_sm(const E& e) { return e.sm; }
    template<class P> static std::string image(const P& p)
    {
        return std::string(reinterpret_cast<const char*>(&p), sizeof(P));
    }
    template<class SM>
    static void dump_dfa(const SM& sm, std::string& out)
    {
        for (size_t i = 0; i < sm.size(); ++i)
        {
            const auto& st = sm[i];
            out += "Q " + std::to_string(i) + " " + std::to_string(int(st.end_state)) + " " + std::to_string(int(st.unreachable)) + " ";
            for (int k = 0; k < 4; ++k) out += std::to_string(st.conflicted_recognition[k] == ctpg::uninitialized16 ? -1 : int(st.conflicted_recognition[k])) + " ";
            // transitions as runs: from-to>target
            size_t c = 0;
            while (c < 256)
            {
                auto t = st.transitions[c];
                size_t e = c;
                while (e + 1 < 256 && st.transitions[e + 1] == t) ++e;
                if (t != ctpg::uninitialized16)
                    out += std::to_string(c) + "-" + std::to_string(e) + ">" + std::to_string(t) + " ";
                c = e + 1;
            }
            out += "\n";
        }
    }
};
#endif
}} // namespace ctpg::verif
