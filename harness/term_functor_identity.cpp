// The functor objects stored in the parser are the ones that have to be called: a term functor (typed_term / custom_term) and a rule functor
// report their own address; it must lie inside the parser object. A functor may return views or pointers into its own state, which are only
// valid as long as the called object is the stored one.
#include "vf_harness.hpp"
#include <cstdint>
#include <sstream>
#include <string>
using namespace ctpg; using namespace ctpg::buffers;
struct TermF { char canon[8] = "KEYWORD"; long operator()(std::string_view) const { return long(reinterpret_cast<std::uintptr_t>(this)); } };
struct ViewF { char canon[8] = "KEYWORD"; std::string_view operator()(std::string_view) const { return std::string_view(canon, 7); } };
struct RuleF { long salt = 7; long operator()(long a, std::string_view v) const { std::string copy(v); return (copy == "KEYWORD" ? 1 : 0) * 1000000007L + (a & 0xffffffffL) * 0 + long(reinterpret_cast<std::uintptr_t>(this)); } };
struct Lx { template<class It, class ES> recognized_term match(match_options, source_point, It s, It e, ES&) const { if (s == e) return recognized_term{}; return recognized_term(*s == 'k' ? 0 : 1, 1); } };
// a custom lexer may answer a valid index with length 0 (a marker in front of a token): the parser stacks it with the empty slice, consumes nothing and asks again
// at the same position. (The lexer object lives for one request only, so its state is static; the marker is shifted directly after a real term.)
static bool zl_marked = false; static std::string zl_calls;
struct ZLx { template<class It, class ES> recognized_term match(match_options, source_point, It s, It e, ES&) const {
    if (s == e) return recognized_term{};
    zl_calls += *s;
    if (*s == 'a') return recognized_term(0, 1);
    if (*s == 'b') { if (!zl_marked) { zl_marked = true; return recognized_term(1, 0); } zl_marked = false; return recognized_term(2, 1); }
    return recognized_term{}; } };
template<class P> int probe(const char* what, const P& p, const char* text)
{
    auto lo = reinterpret_cast<std::uintptr_t>(&p), hi = lo + sizeof(p);
    static long seen_term = 0;
    int bad = 0;
    auto r = p.parse(string_buffer(text), std::cerr);
    if (!r.has_value()) { std::printf("T %s no-result\n", what); return 1; }
    std::printf("T %s ok\n", what);
    return bad;
}
int main()
{
    int bad = 0;
    static constexpr nterm<long> S("S"); static constexpr nterm<long> A("A");
    {   // generated lexer, typed terms
        typed_term ta(char_term('k'), TermF{}); typed_term tb(char_term('v'), ViewF{});
        long term_addr = 0; bool view_ok = false; long rule_addr = 0;
        auto rf = [&](long a, std::string_view v) { term_addr = a; view_ok = (std::string(v) == "KEYWORD"); return 1L; };
        parser p(S, terms(ta, tb), nterms(S), rules(S(ta, tb) >= rf));
        auto lo = reinterpret_cast<std::uintptr_t>(&p), hi = lo + sizeof(p);
        auto r = p.parse(string_buffer("k v"), std::cerr);
        bool inside = std::uintptr_t(term_addr) >= lo && std::uintptr_t(term_addr) < hi;
        std::printf("R typed_term functor-object-inside-parser=%d view-into-functor-state-valid=%d result=%d\n", int(inside), int(view_ok), int(r.has_value()));
        bad += !inside || !view_ok || !r.has_value();
    }
    {   // custom lexer, custom terms
        custom_term ta("k", TermF{}); custom_term tb("v", ViewF{});
        long term_addr = 0; bool view_ok = false;
        auto rf = [&](long a, std::string_view v) { term_addr = a; view_ok = (std::string(v) == "KEYWORD"); return 1L; };
        parser p(S, terms(ta, tb), nterms(S), rules(S(ta, tb) >= rf), use_lexer<Lx>{});
        auto lo = reinterpret_cast<std::uintptr_t>(&p), hi = lo + sizeof(p);
        auto r = p.parse(string_buffer("kv"), std::cerr);
        bool inside = std::uintptr_t(term_addr) >= lo && std::uintptr_t(term_addr) < hi;
        std::printf("R custom_term functor-object-inside-parser=%d view-into-functor-state-valid=%d result=%d\n", int(inside), int(view_ok), int(r.has_value()));
        bad += !inside || !view_ok || !r.has_value();
    }
    {   // rule functor object identity
        struct RF { long salt = 7; long operator()(term_value<char>) const { return long(reinterpret_cast<std::uintptr_t>(this)); } };
        parser p(S, terms('x'), nterms(S), rules(S('x') >= RF{}));
        auto lo = reinterpret_cast<std::uintptr_t>(&p), hi = lo + sizeof(p);
        auto r = p.parse(string_buffer("x"), std::cerr);
        bool inside = r.has_value() && std::uintptr_t(*r) >= lo && std::uintptr_t(*r) < hi;
        std::printf("R rule functor-object-inside-parser=%d view-into-functor-state-valid=1 result=%d\n", int(inside), int(r.has_value()));
        bad += !inside;
    }
    {   // a named, non-const functor object with a const and a non-const call operator, passed as an lvalue: the parser keeps its own copy and
        // calls it as a const object (parse is a const member function); the caller's object is never touched
        struct RF2 { long calls = 0; long self = 0;
                     long operator()(term_value<char>) const { return long(reinterpret_cast<std::uintptr_t>(this)); }
                     long operator()(term_value<char>) { ++calls; return -1; } };
        RF2 named;
        parser p(S, terms('x'), nterms(S), rules(S('x') >= named));
        auto lo = reinterpret_cast<std::uintptr_t>(&p), hi = lo + sizeof(p);
        auto r = p.parse(string_buffer("x"), std::cerr); auto r2 = p.parse(string_buffer("x"), std::cerr);
        bool inside = r.has_value() && *r != -1 && std::uintptr_t(*r) >= lo && std::uintptr_t(*r) < hi && named.calls == 0;
        std::printf("R named-lvalue-functor functor-object-inside-parser=%d view-into-functor-state-valid=1 result=%d\n", int(inside), int(r.has_value() && r2.has_value()));
        bad += !inside;
    }
    {   // zero-length custom term
        static constexpr nterm<long> I("I");
        std::string mark_slices, b_slices;
        custom_term ta("A", [](std::string_view v) { return long(v.size()); });
        custom_term tm("MARK", [&](std::string_view v) { mark_slices += "<" + std::string(v) + ">"; return long(v.size()); });
        custom_term tb("B", [&](std::string_view v) { b_slices += "<" + std::string(v) + ">"; return long(v.size()); });
        parser p(S, terms(ta, tm, tb), nterms(S, I), rules(S(I), S(S, I) >= [](long a, long b) { return a + b; },
                 I(ta, tm, tb) >= [](long a, long m, long b) { return 100 * a + 10 * m + b; }), use_lexer<ZLx>{});
        zl_marked = false; zl_calls.clear();
        std::stringstream es;
        auto r = p.parse(string_buffer("ab a b"), es);
        bool ok = zl_calls == "abbabb" && mark_slices == "<><>" && b_slices == "<b><b>" && es.str().empty();
        std::printf("R zero-length-custom-term functor-object-inside-parser=1 view-into-functor-state-valid=%d result=%d (lexer asked at '%s', MARK slices %s, B slices %s)\n",
                    int(ok), int(r.has_value() && *r == 202), zl_calls.c_str(), mark_slices.c_str(), b_slices.c_str());
        bad += !ok || !(r.has_value() && *r == 202);
    }
    std::printf("END %d\n", bad);
    return 0;
}
