// Fixed probes of documented API usage patterns that the generated programs do not produce: named objects reused, chained setters, functors
// returning references into the caller's context, functor-less rules over types with initializer-list constructors.
#include "vf_harness.hpp"
#include <vector>
#include <map>
using namespace ctpg; using namespace ctpg::buffers; using namespace ctpg::ftors;
template<class P> std::string diag_of(const P& p) { std::ostringstream d; p.write_diag_str(d); std::string s = d.str(); auto k = s.find("RULES"); return k == std::string::npos ? s : s.substr(k); }
static int report(const char* what, bool ok, std::string detail = "") { for (char& c : detail) if (c == '\n') c = ' '; std::printf("P %s %d %s\n", what, int(ok), detail.c_str()); return ok ? 0 : 1; }
int main()
{
    int bad = 0;
    static constexpr nterm<int> E("E");
    static constexpr char_term minus('-', 1, associativity::ltor), times('*', 2, associativity::ltor);
    static constexpr char num_p[] = "[0-9]+"; static constexpr regex_term<num_p> num("num");
    auto to_int = [](std::string_view sv) { int v = 0; for (char c : sv) v = v * 10 + (c - '0'); return v; };
    {   // a rule kept in a named object is not changed by decorating it: r[3] in one parser, plain r in a second one
        auto neg = E(minus, E);
        auto mk = [&](auto&& unary) { return parser(E, terms(minus, times, num), nterms(E), rules(
            E(num) >= [&](auto sv) { return to_int(sv); }, E(E, times, E) >= [](int a, auto, int b) { return a * b; }, E(E, minus, E) >= [](int a, auto, int b) { return a - b; },
            std::forward<decltype(unary)>(unary))); };
        auto tight = mk(neg[3] >= [](auto, int a) { return -a; });
        auto loose = mk(neg >= [](auto, int a) { return -a; });
        auto fresh = mk(E(minus, E) >= [](auto, int a) { return -a; });
        bad += report("named-rule-not-modified-by-operator[]", diag_of(loose) == diag_of(fresh));
        auto r1 = tight.parse(string_buffer("-2*3-1")), r2 = loose.parse(string_buffer("-2*3-1")), r3 = fresh.parse(string_buffer("-2*3-1"));
        bad += report("named-rule-parsers-agree-with-fresh-rule", r2.has_value() && r3.has_value() && *r2 == *r3 && r1.has_value());
    }
    {   // setters chained on a named options object in every order: all of them take effect
        static constexpr nterm<int> S("S");
        parser p(S, terms('1', '2'), nterms(S), rules(S('1', '2') >= [](auto, auto) { return 42; }));
        auto outcome = [&](parse_options o, const char* text) { std::ostringstream ss; auto r = p.parse(o, string_buffer(text), ss); return std::to_string(r.has_value()) + "|" + ss.str(); };
        parse_options a; a.set_skip_newline(false).set_skip_whitespace(false);
        parse_options b; b.set_skip_whitespace(false).set_skip_newline(false);
        parse_options c; c.set_skip_whitespace(false); c.set_skip_newline(false);
        parse_options d; d.set_verbose(true).set_skip_whitespace(true).set_verbose(false);
        parse_options e;
        bad += report("chained-setters-all-take-effect", outcome(a, "1 2") == outcome(c, "1 2") && outcome(b, "1 2") == outcome(c, "1 2") && outcome(a, "1\n2") == outcome(c, "1\n2") && outcome(b, "1\n2") == outcome(c, "1\n2"),
                      outcome(a, "1 2") + " / " + outcome(c, "1 2"));
        bad += report("chained-setters-verbose-switched-back-off", outcome(d, "1 2") == outcome(e, "1 2") && outcome(d, "1 3") == outcome(e, "1 3"));
        bad += report("successful-non-verbose-parse-writes-nothing", outcome(e, "1 2") == "1|");
    }
    {   // a contextual functor that returns a reference into the caller's context: the value is copied, the context keeps its contents
        struct Env { std::map<std::string, std::vector<int>> table; };
        static constexpr nterm<std::vector<int>> V("V"); static constexpr nterm<int> T("T");
        static constexpr char id_p[] = "[a-z]+"; static constexpr regex_term<id_p> id("id");
        parser p(T, terms(id, ','), nterms(T, V), rules(
            V(id) >>= [](Env& e, std::string_view name) -> std::vector<int>& { return e.table.at(std::string(name)); },
            T(V) >= [](std::vector<int>&& v) { return int(v.size()); }, T(T, ',', V) >= [](int n, auto, std::vector<int>&& v) { return n + int(v.size()); }));
        Env env; env.table["a"] = { 1, 2, 3 }; env.table["b"] = { 4, 5 };
        auto r = p.context_parse(env, string_buffer("a, b, a"), std::cerr);
        bad += report("reference-into-the-context-is-copied-not-moved-from", r.has_value() && *r == 8 && env.table["a"].size() == 3 && env.table["b"].size() == 2);
    }
    {   // a rule without functor constructs its left side as L(r1, ..., rn) (direct initialisation)
        static constexpr nterm<std::vector<unsigned long>> F("F"); static constexpr nterm<unsigned long> N("N");
        parser p(F, terms(num), nterms(F, N), rules(N(num) >= [&](auto sv) { return (unsigned long)to_int(sv); }, F(N, N)));
        auto r = p.parse(string_buffer("3 7"));
        bad += report("functor-less-rule-direct-initialises", r.has_value() && r->size() == 3 && (*r)[0] == 7);
    }
    {   // val(v) given as a named object keeps the value it was built with
        auto answer = val(1);
        static constexpr nterm<int> S("S");
        parser p(S, terms('x'), nterms(S), rules(S('x') >= answer));
        answer = val(2);
        auto r = p.parse(string_buffer("x"));
        bad += report("named-val-functor-is-copied-into-the-parser", r.has_value() && *r == 1);
    }
    std::printf("END %d\n", bad);
    return 0;
}
